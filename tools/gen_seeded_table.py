#!/usr/bin/env python3
"""Regenerates the seeded-change table of DESIGN.md 11.8 (between the seeded-table markers) from
/verif/seeded/*/meta.json. Optional argument: a run_all_seeded.sh log; RESULT lines in it fill
`checks_run` of metas that have none yet (and are cross-checked against the others)."""
import glob, json, os, re, sys

ROOT = "/verif"
log = {}
if len(sys.argv) > 1:
    for line in open(sys.argv[1]):
        m = re.match(r"RESULT (\S+?)/? check=(\S+) tier=(\S+) exit=(\d+) violations_lines=(\d+) sigs=(\S*)", line)
        if m:
            sid, chk, tier, ex, _, sigs = m.groups()
            log.setdefault(sid, []).append((chk, tier, int(ex), [s for s in sigs.split(",") if s]))

rows, missing = [], []
for mp in sorted(glob.glob(f"{ROOT}/seeded/C*/meta.json")):
    d = json.load(open(mp))
    sid = d["id"]
    if sid in log:
        detected = [(c, t, s) for c, t, ex, s in log[sid] if ex == 1]
        if not detected:
            missing.append(sid)
        if not d.get("checks_run") or d.get("checks_from_log"):
            d["checks_run"] = {f"{c} {t}": ("VIOLATION " + ", ".join(s) if ex == 1 else "silent") for c, t, ex, s in log[sid]}
            d["checks_from_log"] = True
            json.dump(d, open(mp, "w"), indent=1)
    hist = d.get("history", "")
    if "MISSED" in hist:
        when = "missed → strengthened"
    elif hist.startswith("NOT A VERDICT"):
        when = "engine error, not a verdict → strengthened"
    elif hist.startswith("Outside"):
        when = "caught by the check that owns the seam"
    else:
        when = "caught"
    rep = "; ".join(f"{k}: {v.replace('VIOLATION ', '')}" for k, v in d.get("checks_run", {}).items())
    clean = lambda s: re.sub(r"\s+", " ", s).replace("|", "\\|").strip()
    title = re.sub(r"^C\d\d\s*/\s*(round \d\s*/\s*)?(mutation |m)?\d\s*[-:]\s*", "", d["title"])
    rows.append(f"| {sid} | {clean(title)} | {clean(d['needs_to_manifest'])[:260]} | {when} | {clean(rep)} |")

table = "| id | change | needs to manifest | when it arrived | reported as (quick tier) |\n|---|---|---|---|---|\n" + "\n".join(rows) + "\n"
p = f"{ROOT}/DESIGN.md"
s = open(p).read()
b, e = "<!-- seeded-table-begin -->\n", "<!-- seeded-table-end -->\n"
if b in s:
    s = s[: s.index(b) + len(b)] + table + s[s.index(e):]
else:
    # first use: replace the existing table (from its header line to the blank line after it)
    h = s.index("| id | change | needs to manifest |")
    t = s.index("\n\n", h) + 1
    s = s[:h] + b + table + e + s[t:]
open(p, "w").write(s)
print(f"{len(rows)} rows; not detected in the log: {missing}")
