#!/bin/bash
# tools/try_seeded.sh <patch.diff> <tier> <ID> [<ID>…]
# Applies a seeded change to /repo's working tree, runs the given checks, and ALWAYS restores /repo.
set -u
PATCH="$1"; TIER="$2"; shift 2
cd /repo || exit 2
if [ -n "$(git status --porcelain)" ]; then echo "refusing: /repo working tree is not clean"; exit 2; fi
restore() { git -C /repo checkout -- . ; git -C /repo clean -fdq -- mpd_client mpd_protocol >/dev/null 2>&1; }
trap restore EXIT
if ! git apply "$PATCH"; then echo "PATCH-DOES-NOT-APPLY $PATCH"; exit 2; fi
for id in "$@"; do
  out=$(cd /verif && timeout 1500 ./check "$id" "$TIER" 2>&1)
  code=$?
  v=$(echo "$out" | grep -c '^VIOLATION')
  sigs=$(echo "$out" | grep '^VIOLATION' | sed -E 's/.*sig=([^ ]+).*/\1/' | sort -u | tr '\n' ',' )
  echo "RESULT patch=$PATCH check=$id tier=$TIER exit=$code violations_lines=$v sigs=$sigs"
  if [ $code -ge 2 ]; then echo "$out" | tail -5; fi
done
