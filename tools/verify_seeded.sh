#!/bin/bash
# tools/verify_seeded.sh <worktree> <mdir>     e.g. /tmp/mut/C04 m1
# Confirms in the scratch worktree: patch applies, the unedited suite passes with it, the demo
# fails with it and passes without it. Restores the worktree.
set -u
WT="$1"; M="$2"; D="$WT/out/$M"
export CARGO_TARGET_DIR="$WT/target" CARGO_NET_OFFLINE=true
cd "$WT" || exit 2
git checkout -q -- . 
README=$(ls "$D"/demo/README* | head -1)
DEMO=$(ls "$D"/demo/*.rs | head -1); NAME=$(basename "$DEMO" .rs)
if grep -q "mpd_protocol/tests" "$README"; then CRATE=mpd_protocol; else CRATE=mpd_client; fi
FEAT=$(grep -oE -- "--features (async|chrono)(,(async|chrono))*" "$README" | head -1)
cleanup() { rm -f "$WT/$CRATE/tests/$NAME.rs"; rmdir "$WT/$CRATE/tests" 2>/dev/null; git -C "$WT" checkout -q -- .; }
trap cleanup EXIT
git apply --check "$D/patch.diff" || { echo "VERIFY $WT $M: patch does not apply"; exit 1; }
git apply "$D/patch.diff"
suite=$(cargo test --workspace --offline 2>&1 | grep -E "^test result" | awk '{p+=$4; f+=$6} END {print p" passed "f" failed"}')
mkdir -p "$WT/$CRATE/tests"; cp "$DEMO" "$WT/$CRATE/tests/$NAME.rs"
with=$(timeout 600 cargo test --offline -p $CRATE $FEAT --test $NAME 2>&1 | grep -E "^test result|^error(\[|:)" | head -2 | tr '\n' ' ')
git checkout -q -- .
without=$(timeout 600 cargo test --offline -p $CRATE $FEAT --test $NAME 2>&1 | grep -E "^test result|^error(\[|:)" | head -2 | tr '\n' ' ')
echo "VERIFY $WT $M: suite_with_mutation=[$suite] demo_with=[$with] demo_without=[$without]"
