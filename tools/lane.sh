#!/bin/bash
# tools/lane.sh setup <n>                       create regression lane n: /tmp/lanes/<n>/{repo (worktree of /repo HEAD), verif (copy of the harness)}
# tools/lane.sh sync <n>                        refresh the lane's harness sources / KNOWN_FINDINGS from /verif and its repo from /repo HEAD
# tools/lane.sh try <n> <patch> <tier> <ID>...  apply a patch to the lane's repo, run the checks there, restore (as tools/try_seeded.sh)
# tools/lane.sh rm <n>                          remove the lane with its build output
# Lanes exist so that several seeded / harmless changes can be run at once; /repo itself hosts one patched run at a time.
# Nothing a registered check needs lives here: lanes are scratch copies, their evidence goes to /tmp/lanes/<n>/verif/evidence.
set -u
cmd="$1"; n="$2"; shift 2
L=/tmp/lanes/$n
sync_lane() {
  mkdir -p "$L/verif/evidence" "$L/verif/replays"
  rsync -a --delete --exclude target --exclude target-chrono "${LANE_SRC:-/verif}/harness/" "$L/verif/harness/" --exclude .cargo
  mkdir -p "$L/verif/harness/.cargo"
  sed "s#/verif/harness/target#$L/verif/harness/target#" "${LANE_SRC:-/verif}/harness/.cargo/config.toml" > "$L/verif/harness/.cargo/config.toml"
  sed -i "s#path = \"/repo/#path = \"$L/repo/#" "$L/verif/harness/Cargo.toml"
  cp "${LANE_SRC:-/verif}/check" "${LANE_SRC:-/verif}/KNOWN_FINDINGS.txt" "$L/verif/"
  git -C "$L/repo" checkout -q --detach "$(git -C /repo rev-parse HEAD)"
}
case "$cmd" in
  setup)
    mkdir -p /tmp/lanes
    [ -d "$L/repo" ] || git -C /repo worktree add -q --detach "$L/repo" HEAD
    sync_lane ;;
  sync) sync_lane ;;
  rm) git -C /repo worktree remove --force "$L/repo" 2>/dev/null; rm -rf "$L" ;;
  try)
    PATCH="$1"; TIER="$2"; shift 2
    cd "$L/repo" || exit 2
    restore() { git -C "$L/repo" checkout -q -- . ; git -C "$L/repo" clean -fdq -- mpd_client mpd_protocol >/dev/null 2>&1; }
    restore
    trap restore EXIT
    if ! git apply "$PATCH"; then echo "PATCH-DOES-NOT-APPLY $PATCH"; exit 2; fi
    for id in "$@"; do
      out=$(cd "$L/verif" && VERIF_LANE_ROOT="$L/verif" timeout 1500 ./check "$id" "$TIER" 2>&1)
      code=$?
      v=$(echo "$out" | grep -c '^VIOLATION')
      sigs=$(echo "$out" | grep '^VIOLATION' | sed -E 's/.*sig=([^ ]+).*/\1/' | sort -u | tr '\n' ',' )
      echo "RESULT patch=$PATCH check=$id tier=$TIER exit=$code violations_lines=$v sigs=$sigs"
      if [ $code -ge 2 ]; then echo "$out" | tail -5; fi
    done ;;
esac
