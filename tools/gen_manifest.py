#!/usr/bin/env python3
"""Generates /verif/MANIFEST.json from the table below and validates it (and the evidence files)."""
import json, os, sys

ROOT = "/verif"

# id -> (engine, category, technique, level text, level note, design ref)
CHECKS = {
    "C06": ("enum", "model_checking",
            "bounded-exhaustive enumeration of argument strings over a class alphabet, decoded by a port of MPD's tokenizer",
            "Every argument string over 12 class representatives up to length 4 (quick) / 6 (thorough), all pairs (len<=2) and triples (len<=1), through the three string Argument impls, Connection::send and CommandList rendering, is rendered by the real code and read back by the reference tokenizer; the space is enumerated completely within the bound.",
            "Trusted: mpdref::tokenizer as a faithful port of MPD's Tokenizer.cxx/command_process (self-tested on documented examples); the class alphabet has one representative per byte class either side distinguishes.",
            "DESIGN.md section 4 C06"),
}

NOT_APPLICABLE = {
}

def main():
    props = [json.loads(l) for l in open(f"{ROOT}/properties.jsonl")]
    ids = [p["id"] for p in props]
    checks = []
    for pid in ids:
        if pid not in CHECKS:
            continue
        engine, cat, technique, text, note, ref = CHECKS[pid]
        checks.append({
            "property_id": pid,
            "quick_cmd": f"./check {pid} quick",
            "thorough_cmd": f"./check {pid} thorough",
            "evidence_file": f"/verif/evidence/{pid}.json",
            "replay_cmd_template": f"./check {pid} --replay {{path}}",
            "engine": engine,
            "level_claimed": {"category": cat, "text": text, "design_ref": ref},
            "level_note": note,
            "technique": technique,
        })
    na = []
    for pid in ids:
        if pid in CHECKS:
            continue
        reason = NOT_APPLICABLE.get(pid, "check not built yet in this revision of /verif (planned: see DESIGN.md section 4); not claimed until its command exists")
        na.append({"property_id": pid, "reason": reason})
    manifest = {
        "version": 1,
        "setup_cmd": "cd /verif/harness && CARGO_NET_OFFLINE=true cargo build --release --offline && CARGO_NET_OFFLINE=true CARGO_TARGET_DIR=/verif/harness/target-chrono cargo build --release --offline --features chrono",
        "hooks": {
            "guard": "mpd_client_verif",
            "enable": "none needed: the harness drives the public API of /repo (path dependencies, rebuilt from the working tree by every check); the cfg name is reserved and unused",
            "baseline_off_cmd": "cd /repo && cargo test --workspace --no-fail-fast --offline",
            "source_commits": [],
            "add_only": True,
        },
        "engines": [
            {"name": "loopmc", "path": "/verif/harness/src/engines/loopmc.rs", "serves_properties": ["C01", "C04", "C05", "C08", "C13", "C17", "C18", "C20"],
             "kind_free_text": "stateless model checker: controlled scheduler over the real tokio client loop (paused clock, scripted transport, simulated MPD server), deviation-bounded DFS by re-execution"},
            {"name": "segmc", "path": "/verif/harness/src/engines/segmc.rs", "serves_properties": ["C02", "C03", "C09", "C10", "C18"],
             "kind_free_text": "exhaustive enumeration of environment answers (read segmentations, cut positions, pending polls, errors) for the blocking and async protocol connections"},
            {"name": "enum", "path": "/verif/harness/src/props", "serves_properties": ["C06", "C07", "C11", "C12", "C14", "C15", "C16", "C19", "C20"],
             "kind_free_text": "bounded-exhaustive enumeration of inputs / operation sequences on the real code against reference models (mpdref)"},
        ],
        "checks": checks,
        "not_applicable": na,
        "notes": "All checks are exhaustive enumerations within stated bounds executed on the real code of /repo; see DESIGN.md. Known findings: /verif/KNOWN_FINDINGS.txt.",
    }
    json.dump(manifest, open(f"{ROOT}/MANIFEST.json", "w"), indent=1)
    try:
        import jsonschema
        schema = json.load(open("/root/.vp/MANIFEST.schema.json"))
        jsonschema.validate(manifest, schema)
        es = json.load(open("/root/.vp/EVIDENCE.schema.json"))
        for c in checks:
            p = c["evidence_file"]
            if os.path.exists(p):
                jsonschema.validate(json.load(open(p)), es)
                print("evidence ok:", p)
            else:
                print("evidence missing:", p)
        print("manifest ok:", len(checks), "checks,", len(na), "not claimed")
    except ImportError:
        print("jsonschema not available; not validated")

main()
