#!/usr/bin/env python3
"""Generates /verif/MANIFEST.json from the table below and validates it (and the evidence files)."""
import json, os, sys

ROOT = "/verif"

# id -> (engine, category, technique, level text, level note, design ref)
CHECKS = {
    "C13": ("loopmc", "model_checking",
            "typed Vec/tuple lists of distinguishable probe commands executed through the real Client::command_list under the controlled scheduler (all schedules within a deviation bound), framing and positional pairing checked against the simulated server's transcript; raw list rendering enumerated over every build recipe",
            "Typed Vec lists of length 0..5 and tuples of every arity 1..8 of commands whose reply identifies their position are run through the real client (second caller, and for three shapes a notification and a split, all schedules within the bound; short transport writes; a cancelled list followed by a tuple list; a tuple mixing probes with commands whose replies carry binary parts; empty lists around a connection end; lists after a partial failure, a list of 600 commands, a list sent in the reply window over a stalling transport; hostile-looking command names): N>=2 written as one command_list_ok_begin..command_list_end block with the N lines in order, N=1 as the bare line, N=0 nothing written and an empty result, i-th typed result decoded from the i-th frame, Vec results of exactly N elements; raw lists of 1..6 commands built by every mix of new/command/add/extend render to exactly N+2 (or 1) lines.",
            "Trusted: mpdref::server's list handling (list_OK per command).",
            "DESIGN.md section 4 C13"),
    "C17": ("loopmc", "model_checking",
            "exhaustive parameter grid (size x chunk limit x source x MIME x every ACK code) executed through the real Client::album_art against a simulated server holding the picture, plus schedule exploration with a second caller and notifications between chunk requests",
            "Every grid point is run on the real client: returned bytes and MIME equal the stored picture, request lines are readpicture|albumart <uri> <offset> with offsets = bytes returned so far and exactly ceil(size/limit) (min 1) requests, fallback to albumart exactly on an empty reply or ACK 5, None when neither has data, any other ACK returned with its code; two grid points under all schedules within the deviation bound with interleaved caller and notification; chunk sizes that vary between replies and short final pieces, a caller changing binarylimit between chunks, two concurrent loads of different URIs (offsets follow the bytes actually returned, per URI), two callers loading at once, a server that fails after k chunks, a MIME type given with the first chunk only, and other wordings of the ACK 5 that means `unknown command`.",
            "Trusted: mpdref::server's readpicture/albumart model.",
            "DESIGN.md section 4 C17"),
    "C18": ("loopmc+segmc", "model_checking",
            "protocol half: exhaustive enumeration of greetings x truncations x all segmentations on both connection flavours against a reference greeting grammar; client half: all splits of greeting and password verdict, every verdict (OK, 6 ACK codes, close at every offset, garbage, read error) explored on the real Client::connect* under the controlled scheduler",
            "Greetings `OK MPD `+version over 7 byte classes up to length 3/5, wrong prefixes and overlong versions, truncated at every position, under all compositions (<=13/16 bytes) or <=2 cuts: success iff valid, version verbatim, InvalidMessage for malformed, UnexpectedEof for proper prefixes. Client: first line is `password <pw>` (tokenized; ten edge passwords: empty, blank-edged, tab, non-ASCII spaces, quote, backslash, CR), no idle before the verdict was read, IncorrectPassword on any ACK with nothing further written, protocol error on close/garbage/read error inside the handshake, ordinary legal session afterwards.",
            "Trusted: mpdref::wire::ref_greeting, mpdref::server's password model; the greeting is never delivered in the same read as later bytes.",
            "DESIGN.md section 4 C18"),
    "C14": ("enum", "model_checking",
            "bounded-exhaustive enumeration of abstract song listings (every ordered selection of <=3/4 attribute/tag lines per song; all listings of <=3/4 entries over 10 entry kinds) encoded, parsed by the real parser and decoded by every song-listing command, compared with the abstract listing",
            "One-song listings with every ordered selection of <=3/4 of 19 line kinds (both orders of Time/duration, two Range forms, repeated tags with different and with identical values, values with leading/trailing blanks, empty values, unknown tags), every tag name of the protocol's table in canonical, lower and upper case, every millisecond duration in a window and 18 other decimal spellings and all listings of 0..3/4 entries over 6 song shapes plus directory / playlist entries with and without their own Last-Modified, decoded by playlistinfo, playlistinfo RANGE, currentsong, find, listplaylistinfo, listallinfo: one song per file entry in order with exactly the listed URL, duration (duration wins over Time), position/id/priority/range, format, last-modified and per-tag value lists.",
            "Trusted: the abstract listing model and its encoder; empty URLs (never sent by MPD) are outside the domain.",
            "DESIGN.md section 4 C14"),
    "C15": ("enum", "model_checking",
            "bounded-exhaustive enumeration of every constructor/builder path of every predefined command x boundary parameter values; the written line is split by the tokenizer port and interpreted semantically against a table written from the protocol reference",
            "Every case (count in the evidence) over 66 command words: integers {0,1,2,MAX-1,MAX}, every pair of range bounds {unbounded, included, excluded} x {0,1,5,MAX-1,MAX} incl. empty and inverted ranges (compared as position sets, saturation at MAX accepted), 14 durations around the millisecond rounding points and beyond f32's resolution (within 0.5 ms; crossfade floored), all enum variants, every overwriting builder setter called twice and builders rendered / modified (directly and through clones) / rendered again, every string parameter over 8 strings (blanks, leading blank, quotes, backslash, empty, tab, non-ASCII; compared after tokenizing, so a typed command that escapes by hand is caught), volumes 0..255 (clamped into 0..100): command word, argument count, positions and meaning must match the table.",
            "Trusted: the expectation table (my reading of the MPD protocol reference; where it documents two equivalent requests both are accepted) and mpdref::tokenizer.",
            "DESIGN.md section 4 C15"),
    "C16": ("enum", "model_checking",
            "bounded-exhaustive enumeration of abstract replies per kind (status: all 2048 optional-field subsets, orders, boundary and enum values, out-of-domain spellings; stats, count, grouped count, list, grouped list, listplaylists, stickers, channels, messages, tagtypes, update, replay gain) decoded by the real commands and compared field by field",
            "Every abstract reply is written with the protocol's field names (updating_db, legacy time: elapsed:total), parsed by the real parser and decoded; each decoded field must equal the value sent (durations to f64 representation error over a millisecond sweep), Option fields must be Some iff sent, out-of-domain values (incl. values that wrap to a plausible number in a narrower type, a neighbouring field's spelling, and malformed legacy time values) must give Err, never another value; grouped counts and lists with empty and edge-blank keys/values and with tags the library has no variant for; elapsed beyond the total.",
            "Trusted: the abstract reply models written from MPD's handle_status / protocol reference; non-Option struct fields default when omitted.",
            "DESIGN.md section 4 C16"),
    "C12": ("enum", "model_checking",
            "bounded-exhaustive enumeration of server replies per typed decoder (raw field lists over key x boundary-value pools; valid base reply with all single edits and pairs of edits; every frame count for typed lists) pushed through the real parser and converted under catch_unwind, accessors driven; two builds (default, chrono)",
            "For each of 28 typed decoders and for Vec/tuple command lists: every field list of length <=2 over the decoder's keys (+unrelated/tag/case-variant keys) x a pool of 58 boundary spellings (empty, signs, edge blanks, 255/256, 2^32, 2^64-1, 2^64, 1e19/1e20/1e400, nan/inf, overlong and odd decimals, ranges, timestamps valid, out-of-range and calendar-invalid, multi-byte text around separators), a valid base reply with every single edit (replace, delete, duplicate, insert at every position) and pairs of edits, every frame count 0..N+1, and field names outside the tag alphabet through the parser; conversion and every public accessor/iterator of the result must yield a value or a TypedResponseError, never a panic; run with default features and with chrono.",
            "Trusted: catch_unwind sees every panic (panic=unwind build, overflow checks on). The value pool is a class alphabet, not all strings.",
            "DESIGN.md section 4 C12"),
    "C19": ("enum", "model_checking",
            "explicit exploration of every operation sequence (get/take_binary) up to depth 5/6 on every frame of a bounded family built by the real parser, all observers, all next/next_back iteration patterns and the positional/consuming iterator adaptors compared with a Vec-based model after every step (no state merging)",
            "723 frames (all key sequences of length 0..4 over {a, A, b}; no, ordinary and zero-length binary part; distinct, all-identical and blank-edged values) x every sequence of <=5/6 operations from {get(a), get(A), get(b), get(missing), take_binary}; after every step find/fields_len/is_empty/has_binary/binary/clone and fields(), &frame, into_iter() under every front/back pattern incl. IntoIter::take_binary, and nth/nth_back/last/count/size_hint/skip/step_by/rev as well as fold/rfold/try_fold/try_rfold/for_each (and rev of each) called on the iterator types themselves; responses with 0..3 frames +- error (incl. partial output before the error) under every front/back pattern with exact size hints, successful_frames, is_error, into_single_frame.",
            "Trusted: the Vec<Option<(key,value)>> + Option<binary> model.",
            "DESIGN.md sections 3.3, 4 C19"),
    "C20": ("enum", "model_checking",
            "complete enumeration of the finite domain: all ordered pairs of tag / subsystem values (named variants vs. catch-all in 4 letter cases), all candidate tag strings, all subsystem names sent through the real client",
            "All ordered pairs over 157 tag values and 71 subsystem values: == iff names equal, cmp = string order of names, equal implies equal Hash under two hashers and interchangeability as HashMap/BTreeMap/HashSet key; Tag::try_from on every candidate string (incl. known names with one letter replaced by non-ASCII characters that Unicode case mapping folds onto ASCII) accepts exactly non-empty letters/_/-, maps known names case-insensitively, round-trips and has no memory (every ordered pair of case-variants parsed back to back); every subsystem name (14 + unknown + wrong-case) delivered as an event carries that name.",
            "Trusted: the two name tables written from the MPD protocol reference.",
            "DESIGN.md section 4 C20"),
    "C07": ("enum", "model_checking",
            "bounded-exhaustive enumeration of command names, argument values of every Argument kind (incl. user-defined renderers) and all sequences of <=5/6 accepted/rejected add_argument calls; differential oracle (command == command built from the accepted calls alone)",
            "All names of length <=3/4 over 22 symbols (ASCII classes plus one representative of every non-ASCII letter / numeric / space class) plus every string within edit distance 1 / prefix / extension of the three list keywords; every argument string of length <=4/5 over 12 classes with LF at every position through every string Argument impl, hand-built mpd_client Tag::Other values, integer/bool/Duration values and user-defined renderers emitting every byte string of length <=4/6 over 6 bytes; every sequence of <=4/6 add_argument calls over a menu of 12 values (accepted, rejected, empty and blank-terminated renderings, a line feed as first byte, a hand-built tag): acceptance implies a legal name / no LF, rejection leaves the command == its clone, one LF per sent command, N+2 lines per list.",
            "Trusted: the statement's alphabet (letters, digits, underscore) and the three keyword spellings; renderers only append.",
            "DESIGN.md section 4 C07"),
    "C11": ("enum", "model_checking",
            "bounded-exhaustive enumeration of filter trees (<=3 leaves, nesting <=3) x leaf kinds x value strings over a class alphabet, decoded through ports of MPD's tokenizer and filter grammar and compared with a mirror tree",
            "Every tree shape with <=3 leaves built through new/tag/tag_exists/tag_absent/negate/!/and, every assignment of the 8 leaf kinds, and at one leaf at a time every value of length <=4/5 over 11 symbols (quotes of both kinds, backslash, parentheses, !, =, blank, non-ASCII, AND), rendered through find, count, list and count-group; every Tag variant's name against MPD's table; 48 control / combining / format / private-use characters at three positions of a value under every operator; render-then-negate / -and / clone-then-modify histories compared with a fresh build; the argument located by the tokenizer port and parsed by the filter-grammar port must equal the mirror tree up to AND associativity with byte-identical values.",
            "Trusted: mpdref::tokenizer and mpdref::filter as ports of MPD's two unescaping layers (self-tested on the documented examples); special filter types are outside the domain.",
            "DESIGN.md section 4 C11"),
    "C02": ("segmc", "model_checking",
            "exhaustive enumeration of read segmentations (all compositions for short streams, all <=2/3-cut segmentations, every single cut and boundary-neighbourhood pairs for streams around the 4 KiB buffer and its doublings) x Pending answers x cancellation of the receive future at every await (once, twice, and followed by a send) x {blocking, async}; differential oracle against the one-read baseline",
            "For every byte stream of the pool (well-formed grammar streams, all truncations and single-byte corruptions of 8 two-response streams, long responses whose boundaries sit at 4096/8192/16384 +-1 or whose length is exactly that, binary payloads of 4000-140000 bytes, one 1.2 MB text line) every segmentation of the stated sets is replayed on the real Connection and AsyncConnection by a scripted reader; the sequence of responses and the terminal outcome must equal the one-read baseline and agree between the flavours.",
            "Trusted: nothing but the scripted reader (differential oracle). The greeting is delivered in its own read (a conforming server speaks only when asked).",
            "DESIGN.md sections 3.2, 4 C02"),
    "C03": ("segmc", "model_checking",
            "bounded-exhaustive enumeration of abstract responses (small-scope grammar) encoded by an independent encoder, decoded by the real connections under exhaustive segmentation sets",
            "Every abstract response of the bounded grammar (field-level exhaustive singles, list/error forms over representative frames, sequences of responses) is serialised by mpdref's encoder and must be decoded to exactly the abstract value, response by response, then a clean end; under all compositions (short) / <=2-3 cuts (medium) / single cuts + chunk sizes (long binary, components up to 140000 bytes with responses pipelined behind them), connection histories of 200-520 distinct field names, both flavours; for segmentations with 1-2 cuts also with the async receive abandoned at its second read, a command sent, and receive called again.",
            "Trusted: mpdref::wire encoder (cross-checked against the independent line-based reference decoder on every stream).",
            "DESIGN.md sections 3.2, 4 C03"),
    "C09": ("segmc", "model_checking",
            "exhaustive enumeration of all byte strings over a 10-symbol protocol alphabet up to length 5/6, all single-byte corruptions of grammar streams and numeric edge cases (binary lengths and ACK numbers at 2^32, 2^63, 2^64-1, 2^64, 10^20, 10^40, signed / zero-padded / empty spellings; run in a child process so an allocation abort is a verdict), and large well-formed streams, against a line-based reference decoder; panics caught, reads counted",
            "Every enumerated stream is fed to connect and (after a valid greeting) to receive on both connection flavours under one-read, byte-at-a-time and single-cut segmentations inside catch_unwind with a read cap; delivered responses must equal the reference decoder's, a complete malformed line must give InvalidMessage, an early stop an error, and one more receive() after the terminal result must not panic.",
            "Trusted: the reference decoder grammar (DESIGN.md 3.5); field names with printable, non-blank characters (valid UTF-8) outside the library's present alphabet are unspecified: rejecting such a line and delivering it verbatim are both accepted, line by line.",
            "DESIGN.md sections 3.2, 4 C09"),
    "C10": ("segmc", "fault_enumeration",
            "exhaustive enumeration of cut positions (crash points) of every grammar stream x segmentations of the surviving prefix x cancellation points of the async receive (also followed by a send) x {blocking, async}, incl. streams with several and with very large binary frames",
            "Every stream of the response grammar is truncated at every byte position and followed by EOF; the responses wholly before the cut must be delivered, then Ok(None) iff the cut is exactly on a response boundary recorded by the encoder, else Err(Io(UnexpectedEof)); every proper prefix of a valid greeting must give UnexpectedEof.",
            "Trusted: response boundaries recorded by mpdref's encoder (cross-checked with the reference decoder).",
            "DESIGN.md sections 3.2, 4 C10"),
    "C01": ("loopmc", "model_checking",
            "stateless model checking of the real tokio client loop under a controlled scheduler: deviation-bounded DFS over event orders by re-execution, oracle = simulated MPD server transcript",
            "All orders of Issue (both select! poll orders) / Deliver (whole, split at line boundaries, 1 byte, len-1) / Notify / Tick / HalfTick / LongTick / Cancel / StallWrites events, short transport writes, within the deviation bound (micro scenarios: all orders) are executed on the real Client with a paused clock and a scripted transport; every completed request is compared with the reply the simulated server wrote for exactly that request line, list errors with their successful frames (incl. a failing command that printed output before its ACK), per-caller order at the server, and cancellation leaving other callers' replies intact - also for the next request through the same handle (each caller keeps one Client clone for all its requests); directed histories of 90 and 400/1500 changes with the event receiver alive but never polled: every request still resolves; byte-identical requests from several handles each reach the server and get the reply to an execution of their own.",
            "Trusted: mpdref::server (MPD idle/noidle/command-list rules; its `count` command numbers executions), the one-event-per-step reduction argued in DESIGN.md section 5 (select! with both branches ready = one of the two serialisations), tokio's channels being linearizable. Bounds: <=3 callers, <=3 requests each, deviation bound reported in the evidence.",
            "DESIGN.md sections 3.1, 4 C01"),
    "C04": ("loopmc", "model_checking",
            "stateless model checking of the real client loop (deviation-bounded DFS by re-execution); oracle = changed: lines written by the simulated server vs. events received",
            "Notifications (documented, unknown, and unusually spelt names) at every point of every schedule (server idle: immediate reply; not idle: accumulated, so the next idle is answered with several changed lines), every split of idle replies incl. between and inside lines, requests arriving between the parts, the noidle/changed race, callers giving up while their noidle reply carries changes, notification storms with the event receiver polled only at the end or dropped, and (for the prefix rule) the fault menu of C08; the event sequence must be a prefix of the server's changed lines at every step and equal to it at drain.",
            "Trusted: mpdref::server's idle model (fixed subsystem order, flag semantics). Bounds in the evidence (scenarios, deviation bound).",
            "DESIGN.md sections 3.1, 4 C04"),
    "C05": ("loopmc", "model_checking",
            "stateless model checking of the real client loop; legality of every client write judged by the simulated MPD server and a client-view session automaton",
            "Every write of every explored schedule is judged at the moment it happens: nothing but noidle while the server waits in idle, a request only after everything the server has sent was read (at most one outstanding), exactly one reply consumed between idle and a request, first line idle, nothing illegal written when the last handle goes away at any point or when the server refuses idle, idling kept up through 400/1500 changes that nobody collects, idle again within a bounded time after a reply (the delay itself is not prescribed), idling at drain; each scenario's eager-server exploration is cross-checked against a lazy server (server steps as separate events) on client-observable projections.",
            "Trusted: mpdref::server; eager server reduction (DESIGN.md section 5, validated per run by the lazy cross-check); tokio's select! branch order is owned through a seeded runtime.",
            "DESIGN.md sections 3.1, 4 C05"),
    "C08": ("loopmc", "fault_enumeration",
            "exhaustive fault enumeration on the real client loop: one fault of each kind at every step of every schedule within the deviation bound, Close at every offset of the bytes in flight",
            "For each schedule prefix within the bound one fault (peer close after p more bytes for every p, RST-style close, persistent read error, persistent write error, injected malformed line, malformed bytes without a line end followed by silence, all handles dropped) is injected - also around a caller that gives up, after 90 uncollected events, and in a session the server ends by refusing idle - at every step, followed by all continuations within the bound and a drain with a late request; checks: nothing hangs, later requests fail, Ok only for completely delivered matching replies, closed flag, <=1 closing event then end of stream, unclean ends surfaced - to the caller whose request was in flight where that is beyond doubt (request line reached the server unanswered, or noidle written on behalf of a taken request; no caller gave up) -, transport released.",
            "Trusted: the fault model (writes after a peer close are accepted silently; errors are persistent); mpdref::wire reference decoder decides whether a cut is on a response boundary.",
            "DESIGN.md sections 3.1, 4 C08"),
    "C06": ("enum", "model_checking",
            "bounded-exhaustive enumeration of argument strings over a class alphabet, decoded by a port of MPD's tokenizer",
            "Every argument string over 12 class representatives up to length 5 (quick) / 8 (thorough), all pairs (len<=2/3) and triples (len<=1), through every string Argument impl (&str, String, Cow borrowed and owned, &String, &&str), Connection::send, AsyncConnection::send / send_list and CommandList rendering over whole-write and 1-5-byte-per-write transports, and every command name of length <=3/4 over 6 symbols that the builder accepts, is rendered by the real code and read back by the reference tokenizer; the space is enumerated completely within the bound.",
            "Trusted: mpdref::tokenizer as a faithful port of MPD's Tokenizer.cxx/command_process (self-tested on documented examples); the class alphabet has one representative per byte class either side distinguishes.",
            "DESIGN.md section 4 C06"),
}

# what rounds 6 and 7 of the seeded changes added to each check (appended to the level text)
ADDED = {
    "C01": "Before any exploration a two-connection history is judged by the same oracle (independence probe: a reference session, a connection that dies in the middle of a reply, the reference session again - observed identically and correct).",
    "C02": "Also: thousands of five-byte lines in one read behind a 40 KB value, responses whose tail repeats an earlier response byte for byte, responses that consist of one bare binary part, and every segmentation once more with the session driven through command() instead of receive().",
    "C03": "Also: responses that consist of one bare binary part (no field in front of it), list errors whose command index differs from the number of frames.",
    "C04": "Also: a subsystem name outside ASCII split at every byte (inside a character too); fault kinds as C08; the independence probe of C01.",
    "C05": "Also: the session after a password handshake, a typed list of 180 000 commands (2.3 MB) as one request, request lines of 4200 / 5000 bytes issued while idling and in the window after a reply; the independence probe of C01.",
    "C06": "Also: one argument per Unicode scalar value in U+0080..U+33FF, U+FF00..U+FFFF, U+1F000..U+1F6FF; arguments of every length 1..40/130 with one separator / quote / non-ASCII character at every position; pairs of equally long arguments through one reused buffer; transports that are busy (Pending) between partial writes.",
    "C07": "Also: values of 31..5000 (thorough 2^20) bytes with LF / NUL at six positions (rollback of long rejected arguments); names and arguments handed over in one reused buffer (every same-length pair of a pool): the verdict on each is the verdict it gets on its own; a send that failed leaves nothing behind for a later send on another connection of the thread; whole lines over short-writing asynchronous transports.",
    "C08": "Fault kinds since rounds 6/7: ReadErrAfter(p) (p more bytes stay readable, then reads fail), HugeBinary (a binary header announcing 2^64-1 bytes, then the end); scenarios: the greeting still in flight when the fault strikes (executions in which the handshake itself fails are left to C18), a three-chunk album-art load under faults, cancellation x write errors. Clauses added: a reply the client has read to its last byte is delivered to its caller; an interrupted picture load yields the picture or an error, never 'no picture'. The independence probe of C01.",
    "C09": "Also: field values and ACK messages of 9..4100 bytes with 2-, 3- and 4-byte characters straddling every likely clip length; the whole enumeration once more in a child process with a tracing subscriber that enables every trace!/debug! call site of the library.",
    "C10": "Also: bare binary responses cut every 997 bytes; at every cut position a transport error (connection reset) instead of the end of the stream - never a clean close, the responses in front of it are delivered.",
    "C11": "Also: on a single leaf every value under every operator and through Filter::tag; values of every length 40..70, 120..136, 250..260 and around 512/1024/2000 with backslashes / quotes / blanks / non-ASCII characters; values with LF / NUL (refused, or sent unaltered - never a request without the filter); every builder path that carries a filter (find with sort / window, count, count.group_by, list.filter / group_by in both orders).",
    "C12": "Also: values of 9..4100 bytes (ASCII, digits, multi-byte characters straddling every likely clip length) as single field and as an edit of the valid base reply; field names of 20..5000 characters.",
    "C13": "Also: tuple lists answered with surplus frames (an error, or the i-th result from the i-th frame); a Race is not offered for an empty list; extend() with iterators of inexact size_hint; a list whose write failed leaves nothing behind for a later list; a typed list of 180 000 commands is one block; thorough: every shape with a notification and a split, bounds 4-5.",
    "C14": "Also: every listing decoded through 12 builder paths (find plain / windowed / sorted, playlistinfo range / position / id, listallinfo root / directory, ...): decoding does not depend on the request's parameters; songs of 20..300 tag lines; replies with a repeated attribute line decode alike through every entry point; 11 RFC 3339 spellings of Last-Modified returned verbatim; the whole enumeration also in the chrono build.",
    "C15": "Also: 12 strings per string parameter (a quote or backslash before the first blank, trailing blank); every order of List's builder steps and each step twice; a panicking constructor is reported (C15/panic), not a crash.",
    "C16": "Also: every sticker name of length <=3 over 6 classes (2-, 3-, 4-byte characters) x every value of length <=2 over 4 classes through get / list / find; every grouped list reply of <=5 lines over 2 tags x 3 texts incl. identical neighbours; 11 RFC 3339 spellings of Last-Modified; the whole enumeration also in the chrono build.",
    "C17": "Also: binary limits raised to 64 KiB..2 MiB (chunks far beyond the receive buffer), pictures of 4 MiB + 10 (thorough: 16 MiB + 3) bytes, greetings of nine other server versions, nine unusual MIME spellings returned verbatim; thorough exploration bound 5.",
    "C19": "Also: frames of 21..100 fields (operation sequences <=2 and directed runs, a fixed family of 32 walk patterns); list errors whose index differs from the number of frames; a panic in an observer is reported (C19/panic).",
    "C20": "Also: Tag == &str against every name of the domain; known names with tails of up to 20 letters and plain names of 20..70 / 300 letters as parse candidates.",
}
for _k, _v in ADDED.items():
    _t = list(CHECKS[_k]); _t[3] = _t[3] + " " + _v; CHECKS[_k] = tuple(_t)

NOT_APPLICABLE = {
}

def main():
    props = [json.loads(l) for l in open(f"{ROOT}/properties.jsonl")]
    ids = [p["id"] for p in props]
    checks = []
    for pid in ids:
        if pid not in CHECKS:
            continue
        engine, cat, technique, text, note, ref = CHECKS[pid]
        checks.append({
            "property_id": pid,
            "quick_cmd": f"./check {pid} quick",
            "thorough_cmd": f"./check {pid} thorough",
            "evidence_file": f"/verif/evidence/{pid}.json",
            "replay_cmd_template": f"./check {pid} --replay {{path}}",
            "engine": engine,
            "level_claimed": {"category": cat, "text": text, "design_ref": ref},
            "level_note": note,
            "technique": technique,
        })
    na = []
    for pid in ids:
        if pid in CHECKS:
            continue
        reason = NOT_APPLICABLE.get(pid, "check not built yet in this revision of /verif (planned: see DESIGN.md section 4); not claimed until its command exists")
        na.append({"property_id": pid, "reason": reason})
    manifest = {
        "version": 1,
        "setup_cmd": "cd /verif/harness && export CARGO_NET_OFFLINE=true RUSTFLAGS=\"${RUSTFLAGS:-} --cfg tokio_unstable\" && cargo build --release --offline && CARGO_TARGET_DIR=/verif/harness/target-chrono cargo build --release --offline --features chrono",
        "hooks": {
            "guard": "mpd_client_verif",
            "enable": "none needed: the harness drives the public API of /repo (path dependencies, rebuilt from the working tree by every check); the cfg name is reserved and unused",
            "baseline_off_cmd": "cd /repo && cargo test --workspace --no-fail-fast --offline",
            "source_commits": [],
            "add_only": True,
        },
        "engines": [
            {"name": "loopmc", "path": "/verif/harness/src/engines/loopmc.rs", "serves_properties": ["C01", "C04", "C05", "C08", "C13", "C17", "C18", "C20"],
             "kind_free_text": "stateless model checker: controlled scheduler over the real tokio client loop (paused clock, scripted transport, simulated MPD server), deviation-bounded DFS by re-execution"},
            {"name": "segmc", "path": "/verif/harness/src/engines/segmc.rs", "serves_properties": ["C02", "C03", "C09", "C10", "C18"],
             "kind_free_text": "exhaustive enumeration of environment answers (read segmentations, cut positions, pending polls, errors) for the blocking and async protocol connections"},
            {"name": "enum", "path": "/verif/harness/src/props", "serves_properties": ["C06", "C07", "C11", "C12", "C14", "C15", "C16", "C19", "C20"],
             "kind_free_text": "bounded-exhaustive enumeration of inputs / operation sequences on the real code against reference models (mpdref)"},
        ],
        "checks": checks,
        "not_applicable": na,
        "notes": "All checks are exhaustive enumerations within stated bounds executed on the real code of /repo; see DESIGN.md. Known findings: /verif/KNOWN_FINDINGS.txt.",
    }
    json.dump(manifest, open(f"{ROOT}/MANIFEST.json", "w"), indent=1)
    try:
        import jsonschema
        schema = json.load(open("/root/.vp/MANIFEST.schema.json"))
        jsonschema.validate(manifest, schema)
        es = json.load(open("/root/.vp/EVIDENCE.schema.json"))
        for c in checks:
            p = c["evidence_file"]
            if os.path.exists(p):
                jsonschema.validate(json.load(open(p)), es)
                print("evidence ok:", p)
            else:
                print("evidence missing:", p)
        print("manifest ok:", len(checks), "checks,", len(na), "not claimed")
    except ImportError:
        print("jsonschema not available; not validated")

main()
