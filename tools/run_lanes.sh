#!/bin/bash
# tools/run_lanes.sh <jobs-file> <tier> [<lanes>=4]
# jobs-file: one job per line, "<patch-file> <ID> [<ID>...]". Runs the jobs on <lanes> parallel lanes (tools/lane.sh), one
# RESULT line per job and check on stdout. Lanes are created / refreshed first and left in place (remove with lane.sh rm).
set -u
JOBS="$1"; TIER="$2"; N="${3:-4}"
# NO_SETUP=1: the lanes exist and are current (several run_lanes.sh may then share them; a setup would
# check out the lane's repo under a job that is running there)
if [ "${NO_SETUP:-0}" != 1 ]; then for i in $(seq 1 "$N"); do /verif/tools/lane.sh setup "$i"; done; fi
run_job() {
  line="$1"; tier="$2"; n="$3"
  while :; do
    for i in $(seq 1 "$n"); do
      exec 9>"/tmp/lanes/$i.lock"
      if flock -n 9; then
        # shellcheck disable=SC2086
        /verif/tools/lane.sh try "$i" $(echo "$line" | cut -d' ' -f1) "$tier" $(echo "$line" | cut -d' ' -f2-) 2>&1 | grep -E "^RESULT|PATCH|MACHINERY|error"
        flock -u 9; return
      fi
    done
    sleep 1
  done
}
export -f run_job
grep -v '^\s*$' "$JOBS" | xargs -P "$N" -I{} bash -c 'run_job "$1" "$2" "$3"' _ {} "$TIER" "$N"
