#!/usr/bin/env python3
"""keep_seeded.py <ID> <m> <json-extra>: copy a confirmed seeded change from /tmp/mut/<ID>/out/<m> into
/verif/seeded/<ID>-<m>/ (patch.diff, demo/, notes.md, meta.json)."""
import json, os, shutil, sys, re, glob
pid, m = sys.argv[1], sys.argv[2]
base = os.environ.get("SEED_BASE", "/tmp/mut")
tag = os.environ.get("SEED_TAG", "")
extra = json.loads(sys.argv[3]) if len(sys.argv) > 3 else {}
src = f"{base}/{pid}/out/{m}"
dst = f"/verif/seeded/{pid}-{tag}{m}"
os.makedirs(dst, exist_ok=True)
shutil.copy(f"{src}/patch.diff", f"{dst}/patch.diff")
if os.path.isdir(f"{dst}/demo"): shutil.rmtree(f"{dst}/demo")
shutil.copytree(f"{src}/demo", f"{dst}/demo")
shutil.copy(f"{src}/notes.md", f"{dst}/notes.md")
# verification line
ver = ""
for f in glob.glob(f"{base}/verify*.log"):
    for line in open(f):
        if line.startswith(f"VERIFY {base}/{pid} {m}:"):
            ver = line.strip()
notes = open(f"{src}/notes.md").read()
title = next((l.lstrip('# ').strip() for l in notes.splitlines() if l.strip()), "")
readme = open(glob.glob(f"{src}/demo/README*")[0]).read().strip()
files = sorted(set(re.findall(r'^diff --git a/(\S+)', open(f"{src}/patch.diff").read(), re.M)))
meta = {
    "id": f"{pid}-{tag}{m}",
    "property": pid,
    "origin": "written by an independent sub-agent that was given only the text of the property and a scratch worktree of /repo (nothing from /verif)",
    "title": title,
    "touches": files,
    "needs_to_manifest": extra.get("needs", "see notes.md"),
    "demo": readme,
    "confirmed_by_me": {
        "how": "tools/verify_seeded.sh in the scratch worktree: patch applies to HEAD; `cargo test --workspace --offline` with the change; demo with the change; demo without it",
        "result": ver,
    },
    "checks_run": extra.get("checks", {}),
    "history": extra.get("history", ""),
}
json.dump(meta, open(f"{dst}/meta.json", "w"), indent=1)
print("kept", dst, "|", title[:90])
