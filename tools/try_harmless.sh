#!/bin/bash
# tools/try_harmless.sh <patch.diff> [tier]  — a property-preserving change: run every check whose
# seam the patch touches (by file) and expect silence (exit 0 everywhere). /repo is restored.
PATCH="$1"; TIER="${2:-quick}"
files=$(grep -E '^diff --git a/' "$PATCH" | sed -E 's#^diff --git a/(\S+) .*#\1#')
set=""
for f in $files; do
  case "$f" in
    mpd_protocol/src/connection.rs|mpd_protocol/src/parser.rs|mpd_protocol/src/response/*|mpd_protocol/src/lib.rs)
      set="$set C01 C02 C03 C04 C05 C08 C09 C10 C12 C13 C17 C18 C19";;
    mpd_protocol/src/command.rs)
      set="$set C01 C05 C06 C07 C11 C13 C15 C17 C18";;
    mpd_client/src/client/*)
      set="$set C01 C04 C05 C08 C13 C17 C18 C20";;
    mpd_client/src/*)
      set="$set C11 C12 C13 C14 C15 C16 C17 C20";;
  esac
done
set=$(echo $set | tr ' ' '\n' | sort -u | tr '\n' ' ')
/verif/tools/try_seeded.sh "$PATCH" "$TIER" $set
