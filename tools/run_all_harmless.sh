#!/bin/bash
# tools/run_all_harmless.sh [tier] — every property-preserving control against the checks whose seam it
# touches; prints only what is NOT silent. /repo is restored after each.
TIER="${1:-quick}"
n=0
for f in /verif/seeded/harmless/*.diff /verif/seeded/harmless/r4/*.diff /verif/seeded/harmless/r5/*.diff; do
  n=$((n+1))
  /verif/tools/try_harmless.sh "$f" "$TIER" 2>&1 | grep -v "exit=0" | sed -E "s#patch=/verif/seeded/harmless/##"
done
echo "--- $n controls run"
git -C /repo status --short | head -3
