#!/bin/bash
# tools/run_all_seeded.sh [tier]  — every /verif/seeded/*/patch.diff against the check of its property.
# Prints one line per seeded change; /repo is restored after each.
TIER="${1:-quick}"
for d in /verif/seeded/C*/; do
  id=$(basename "$d"); prop=${id%%-*}
  # meta.json may name the check(s) that own the seam the change sits in (default: its property's check)
  with=$(python3 -c "import json,sys; print(' '.join(json.load(open(sys.argv[1])).get('detect_with', [sys.argv[2]])))" "$d/meta.json" "$prop")
  /verif/tools/try_seeded.sh "$d/patch.diff" "$TIER" $with 2>&1 | grep -E "^RESULT|PATCH|refusing|MACHINERY" | sed -E "s#patch=/verif/seeded/##; s#/patch.diff##"
done
echo "--- control: unchanged tree"
cd /verif && for p in C01 C02 C03 C04 C05 C06 C07 C08 C09 C10 C11 C12 C13 C14 C15 C16 C17 C18 C19 C20; do ./check $p $TIER | tail -1 | cut -c1-160; done
git -C /repo status --short | head -3
