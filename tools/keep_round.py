#!/usr/bin/env python3
"""keep_round.py <base> <tag> <final-log> : keep every verified change of a round.
<base>/<Cxx>/out/<m>/{patch.diff,demo/,notes.md}, <base>/verify_<Cxx>.log (tools/verify_seeded.sh lines),
<base>/lanes_<Cxx>.log (RESULT lines of the checks as they stood when the change arrived), <final-log> (RESULT
lines of the checks as committed). Writes /verif/seeded/<Cxx>-<tag><m>/ with meta.json."""
import json, os, re, shutil, sys, glob
base, tag, final = sys.argv[1], sys.argv[2], sys.argv[3]
detect_with = json.loads(sys.argv[4]) if len(sys.argv) > 4 else {}
def results(path):
    out = {}
    if not os.path.exists(path): return out
    for line in open(path):
        m = re.match(r'RESULT patch=\S*/(C\d\d)/out/(m\d)/patch.diff check=(C\d\d) tier=(\w+) exit=(\d+) violations_lines=\d+ sigs=(\S*)', line)
        if m:
            pid, mm, chk, tier, code, sigs = m.groups()
            out.setdefault((pid, mm), {})[chk] = (tier, int(code), sigs.strip(','))
    return out
fin = results(final)
for d in sorted(glob.glob(f"{base}/C*/out/m*")):
    pid, m = d.split('/')[-3], d.split('/')[-1]
    ver = ""
    for line in open(f"{base}/verify_{pid}.log"):
        if line.startswith(f"VERIFY {base}/{pid} {m}:"): ver = line.strip()
    if "104 passed 0 failed" not in ver or "demo_with=[test result: FAILED" not in ver or "demo_without=[test result: ok" not in ver:
        print("NOT CONFIRMED, skipped:", pid, m); continue
    first = results(f"{base}/lanes_{pid}.log").get((pid, m), {})
    notes = open(f"{d}/notes.md").read()
    title = next((l.lstrip('# ').strip() for l in notes.splitlines() if l.strip()), "")
    needs = "see notes.md"
    sec = re.split(r'^##+\s*', notes, flags=re.M)
    for s in sec:
        head = s.split('\n', 1)[0].lower()
        if 'manifest' in head or 'need' in head:
            body = s.split('\n', 1)[1] if '\n' in s else ''
            needs = re.sub(r'\s+', ' ', body).strip()[:600]
            break
    dst = f"/verif/seeded/{pid}-{tag}{m}"
    os.makedirs(dst, exist_ok=True)
    shutil.copy(f"{d}/patch.diff", f"{dst}/patch.diff")
    if os.path.isdir(f"{dst}/demo"): shutil.rmtree(f"{dst}/demo")
    shutil.copytree(f"{d}/demo", f"{dst}/demo")
    shutil.copy(f"{d}/notes.md", f"{dst}/notes.md")
    own_first = first.get(pid)
    caught_first = bool(own_first and own_first[1] == 1)
    checks_run = {f"{chk} {t}": (f"VIOLATION {sigs}" if code == 1 else f"exit {code}") for chk, (t, code, sigs) in fin.get((pid, m), {}).items()}
    meta = {
        "id": f"{pid}-{tag}{m}", "property": pid,
        "origin": "written by an independent sub-agent that was given only the text of the property and a scratch worktree of /repo (nothing from /verif)",
        "title": title, "touches": sorted(set(re.findall(r'^diff --git a/(\S+)', open(f"{d}/patch.diff").read(), re.M))),
        "needs_to_manifest": needs, "demo": open(glob.glob(f"{d}/demo/README*")[0]).read().strip(),
        "confirmed_by_me": {"how": "tools/verify_seeded.sh in the scratch worktree: patch applies to HEAD; `cargo test --workspace --offline` with the change; demo with the change; demo without it", "result": ver},
        "checks_run": checks_run,
        "history": "caught by the checks as they stood" if caught_first else (
            ("NOT A VERDICT: the check crashed (exit %d) instead of reporting; panics are captured now, see DESIGN 11.8" % own_first[1]) if own_first and own_first[1] > 2
            else "MISSED by the checks as they stood; strengthened, see DESIGN 11.8"),
        "checks_from_log": True,
    }
    key = f"{pid}-{m}"
    if key in detect_with:
        meta["detect_with"] = detect_with[key]
        if not caught_first:
            meta["history"] = "Outside %s's seam (the change sits where %s looks): reported there by the checks as they stood" % (pid, " / ".join(c for c in detect_with[key] if c != pid))
    json.dump(meta, open(f"{dst}/meta.json", "w"), indent=1)
    print("kept", meta["id"], "|", meta["history"][:30], "|", checks_run)
