//! C14 — song listings decode to the songs the server listed.
//!
//! Abstract listings (songs with every ordered selection of attribute/tag lines, interleaved
//! directory and playlist entries with their own modification dates) are encoded, pushed through
//! the real parser and decoded by every song-listing command; the result is compared with the
//! abstract listing.

use std::{collections::BTreeMap, time::Duration};

use mpd_client::{
    commands::{self as c, Command},
    responses::{Song, SongInQueue},
};
use rayon::prelude::*;
use serde_json::{json, Value};

use crate::{common::*, mpdref::wire::AFrame, props::c12::make_frames};

/// the attribute / tag lines a song entry may carry
const LINES: &[(&str, &str)] = &[
    ("duration", "10.500"),
    ("Time", "11"),
    ("Range", "1.500-3.250"),
    ("Range", "2.000-"),
    ("Format", "44100:16:2"),
    ("Last-Modified", "2020-06-12T17:53:00Z"),
    ("Prio", "7"),
    ("Pos", "3"),
    ("Id", "9"),
    ("Title", "T one"),
    ("Title", "T two"),
    ("Artist", "A"),
    ("X-Custom", "u"),
    // values with blanks at the edges, an exact repetition of an earlier value, an empty value
    ("Title", "T one"),
    ("Genre", "  two leading blanks"),
    ("Genre", "trailing blank and tab \t"),
    ("Comment", ""),
    ("Performer", "A"),
    ("Performer", "A"),
];

#[derive(Clone, Debug, PartialEq, Eq)]
enum Entry {
    Song { url: String, lines: Vec<usize> },
    Directory { name: String, lm: bool },
    Playlist { name: String, lm: bool },
}

#[derive(Clone, Debug, PartialEq, Eq, Default)]
struct ASong {
    url: String,
    duration: Option<Duration>,
    position: usize,
    id: u64,
    priority: u8,
    range: Option<(Duration, Option<Duration>)>,
    format: Option<String>,
    last_modified: Option<String>,
    tags: BTreeMap<String, Vec<String>>,
}

pub fn dur(s: &str) -> Duration {
    let (i, f) = s.split_once('.').unwrap_or((s, "0"));
    let mut f = f.to_string();
    while f.len() < 9 {
        f.push('0');
    }
    Duration::new(i.parse().unwrap(), f.parse().unwrap())
}

fn expected_song(url: &str, lines: &[usize]) -> ASong {
    let mut s = ASong { url: url.to_string(), ..Default::default() };
    let mut have_duration = false;
    for &li in lines {
        let (k, v) = LINES[li];
        match k {
            "duration" => {
                s.duration = Some(dur(v));
                have_duration = true;
            }
            "Time" => {
                if !have_duration && !lines.iter().any(|&l| LINES[l].0 == "duration") {
                    s.duration = Some(dur(v));
                }
            }
            "Range" => {
                let (a, b) = v.split_once('-').unwrap();
                s.range = Some((dur(a), if b.is_empty() { None } else { Some(dur(b)) }));
            }
            "Format" => s.format = Some(v.to_string()),
            "Last-Modified" => s.last_modified = Some(v.to_string()),
            "Prio" => s.priority = v.parse().unwrap(),
            "Pos" => s.position = v.parse().unwrap(),
            "Id" => s.id = v.parse().unwrap(),
            tag => s.tags.entry(tag.to_string()).or_default().push(v.to_string()),
        }
    }
    s
}

fn encode(listing: &[Entry]) -> (Vec<(String, String)>, Vec<ASong>) {
    let mut fields = Vec::new();
    let mut songs = Vec::new();
    for e in listing {
        match e {
            Entry::Song { url, lines } => {
                fields.push(("file".to_string(), url.clone()));
                for &li in lines {
                    fields.push((LINES[li].0.to_string(), LINES[li].1.to_string()));
                }
                songs.push(expected_song(url, lines));
            }
            Entry::Directory { name, lm } => {
                fields.push(("directory".to_string(), name.clone()));
                if *lm {
                    fields.push(("Last-Modified".to_string(), "2001-01-01T00:00:00Z".to_string()));
                }
            }
            Entry::Playlist { name, lm } => {
                fields.push(("playlist".to_string(), name.clone()));
                if *lm {
                    fields.push(("Last-Modified".to_string(), "2002-02-02T00:00:00Z".to_string()));
                }
            }
        }
    }
    (fields, songs)
}

fn tag_name(t: &mpd_client::tag::Tag) -> String {
    argument_as_the_server_reads_it(t)
}

fn observe_song(s: &Song) -> ASong {
    let mut tags = BTreeMap::new();
    for (k, v) in &s.tags {
        tags.insert(tag_name(k), v.clone());
    }
    ASong { url: s.url.clone(), duration: s.duration, format: s.format.clone(), last_modified: s.last_modified.as_ref().map(|t| t.raw().to_string()), tags, ..Default::default() }
}

fn observe_queued(s: &SongInQueue) -> ASong {
    let mut a = observe_song(&s.song);
    a.position = s.position.0;
    a.id = s.id.0;
    a.priority = s.priority;
    a.range = s.range.map(|r| (r.from, r.to));
    a
}

/// what a decoder that only yields `Song` can show of the abstract song
fn strip_queue(a: &ASong) -> ASong {
    ASong { position: 0, id: 0, priority: 0, range: None, ..a.clone() }
}

#[derive(Default)]
struct Acc {
    listings: u64,
    decodes: u64,
    nontrivial: u64,
    viol: Violations,
}
impl Acc {
    fn merge(mut self, o: Acc) -> Acc {
        self.listings += o.listings;
        self.decodes += o.decodes;
        self.nontrivial += o.nontrivial;
        self.viol.merge(o.viol);
        self
    }
}

fn listing_json(l: &[Entry]) -> Value {
    json!(l.iter().map(|e| match e {
        Entry::Song { url, lines } => json!({"song": url, "lines": lines}),
        Entry::Directory { name, lm } => json!({"directory": name, "lm": lm}),
        Entry::Playlist { name, lm } => json!({"playlist": name, "lm": lm}),
    }).collect::<Vec<_>>())
}

fn listing_from_json(v: &Value) -> Vec<Entry> {
    v.as_array()
        .map(|a| {
            a.iter()
                .filter_map(|e| {
                    if let Some(u) = e["song"].as_str() {
                        Some(Entry::Song { url: u.to_string(), lines: e["lines"].as_array()?.iter().filter_map(|x| x.as_u64().map(|n| (n as usize).min(LINES.len() - 1))).collect() })
                    } else if let Some(n) = e["directory"].as_str() {
                        Some(Entry::Directory { name: n.to_string(), lm: e["lm"].as_bool().unwrap_or(false) })
                    } else {
                        e["playlist"].as_str().map(|n| Entry::Playlist { name: n.to_string(), lm: e["lm"].as_bool().unwrap_or(false) })
                    }
                })
                .collect()
        })
        .unwrap_or_default()
}

fn diff(kind: &str, want: &[ASong], got: &[ASong]) -> Option<String> {
    if want == got {
        return None;
    }
    if want.len() != got.len() {
        return Some(format!("[{kind}] {} songs decoded, the server listed {}", got.len(), want.len()));
    }
    for (i, (w, g)) in want.iter().zip(got).enumerate() {
        if w != g {
            return Some(format!("[{kind}] song {i}: decoded {g:?}, listed {w:?}"));
        }
    }
    None
}

/// the protocol's tag names (MPD tag_names[]), plus one the library does not know
/// exactly representable or harmless under f64 -> nanosecond rounding
pub const DURATION_SPELLINGS: &[&str] = &["2.5", "10.25", "61.0625", "3.0", "1.0000", "0.5", "0.05", "0.005", "0.0005", "12", "1.50", "1.500000", "99.999999", "7.000001", "0.125", "1234.5", "5.25", "100.75"];

const TAG_NAMES: &[&str] = &[
    "Artist", "ArtistSort", "Album", "AlbumSort", "AlbumArtist", "AlbumArtistSort", "Title", "Track", "Name", "Genre", "Date", "OriginalDate", "Composer", "ComposerSort", "Performer", "Conductor", "Work", "Ensemble", "Movement",
    "MovementNumber", "Location", "Grouping", "Comment", "Disc", "Label", "MUSICBRAINZ_ARTISTID", "MUSICBRAINZ_ALBUMID", "MUSICBRAINZ_ALBUMARTISTID", "MUSICBRAINZ_TRACKID", "MUSICBRAINZ_RELEASETRACKID", "MUSICBRAINZ_WORKID",
    "X-Custom",
];

fn check_listing(listing: &[Entry], acc: &mut Acc, verbose: bool) {
    let (fields, want) = encode(listing);
    let only_songs = listing.iter().all(|e| matches!(e, Entry::Song { .. }));
    check_fields_inner(&fields, &want, &listing_json(listing), listing.len() > 1, only_songs, acc, verbose);
}

fn check_fields(fields: &[(String, String)], want: &[ASong], case: &Value, acc: &mut Acc, verbose: bool) {
    check_fields_inner(fields, want, case, false, true, acc, verbose);
}

fn check_fields_inner(fields: &[(String, String)], want: &[ASong], case: &Value, several: bool, only_songs: bool, acc: &mut Acc, verbose: bool) {
    let fields = fields.to_vec();
    let want = want.to_vec();
    acc.listings += 1;
    if several || want.iter().any(|s| !s.tags.is_empty() || s.duration.is_some()) {
        acc.nontrivial += 1;
    }
    let frame = || make_frames(&[AFrame { fields: fields.clone(), binary: None }], false).remove(0);
    let case = case.clone();
    if verbose {
        println!("  reply lines: {:?}", fields.iter().map(|(k, v)| format!("{k}: {v}")).collect::<Vec<_>>());
        println!("  listed songs: {want:?}");
    }
    let want_plain: Vec<ASong> = want.iter().map(strip_queue).collect();
    let mut report = |kind: &str, r: Result<Result<Vec<ASong>, String>, String>, want: &[ASong], acc: &mut Acc| {
        acc.decodes += 1;
        let problem = match r {
            Err(p) => Some((format!("C14/panic-{kind}"), format!("[{kind}] panic: {p}"))),
            Ok(Err(e)) => Some((format!("C14/rejected-{kind}"), format!("[{kind}] well-formed listing rejected: {e}"))),
            Ok(Ok(got)) => diff(kind, want, &got).map(|d| {
                let sig = if got.len() != want.len() { "song-count" } else { "song-content" };
                (format!("C14/{sig}"), d)
            }),
        };
        if let Some((sig, what)) = problem {
            if verbose {
                println!("  MISMATCH {what}");
            }
            acc.viol.push(Violation::new(sig, format!("{what}; reply {:?}", fields.iter().map(|(k, v)| format!("{k}: {v}")).collect::<Vec<_>>()), case.clone()));
        }
    };
    report("playlistinfo", catch(|| c::Queue.response(frame()).map(|v| v.iter().map(observe_queued).collect()).map_err(|e| e.to_string())), &want, acc);
    report(
        "playlistinfo-range",
        catch(|| c::Queue::range(c::SongPosition(0)..).response(frame()).map(|v| v.iter().map(observe_queued).collect()).map_err(|e| e.to_string())),
        &want,
        acc,
    );
    report("find", catch(|| c::Find::new(mpd_client::filter::Filter::tag(mpd_client::tag::Tag::Artist, "x")).response(frame()).map(|v| v.iter().map(observe_song).collect()).map_err(|e| e.to_string())), &want_plain, acc);
    report("listplaylistinfo", catch(|| c::GetPlaylist("p").response(frame()).map(|v| v.iter().map(observe_song).collect()).map_err(|e| e.to_string())), &want_plain, acc);
    report("listallinfo", catch(|| c::ListAllIn::root().response(frame()).map(|v| v.iter().map(observe_song).collect()).map_err(|e| e.to_string())), &want_plain, acc);
    // the decoded listing is a function of the reply alone, not of how the request was parameterised
    // (round 6: a result truncated to the requested window): the same reply through other builder paths
    let filter = || mpd_client::filter::Filter::tag(mpd_client::tag::Tag::Artist, "x");
    report("find-window-0..1", catch(|| c::Find::new(filter()).window(0..1).response(frame()).map(|v| v.iter().map(observe_song).collect()).map_err(|e| e.to_string())), &want_plain, acc);
    report("find-window-..=0-sorted", catch(|| c::Find::new(filter()).sort(mpd_client::tag::Tag::Title).window(..=0).response(frame()).map(|v| v.iter().map(observe_song).collect()).map_err(|e| e.to_string())), &want_plain, acc);
    report("find-window-2..", catch(|| c::Find::new(filter()).window(2..).response(frame()).map(|v| v.iter().map(observe_song).collect()).map_err(|e| e.to_string())), &want_plain, acc);
    report("playlistinfo-range-0..1", catch(|| c::Queue::range(c::SongPosition(0)..c::SongPosition(1)).response(frame()).map(|v| v.iter().map(observe_queued).collect()).map_err(|e| e.to_string())), &want, acc);
    report("playlistinfo-song-position", catch(|| c::Queue::song(c::SongPosition(3)).response(frame()).map(|v| v.iter().map(observe_queued).collect()).map_err(|e| e.to_string())), &want, acc);
    report("playlistid-song-id", catch(|| c::Queue::song(c::SongId(7)).response(frame()).map(|v| v.iter().map(observe_queued).collect()).map_err(|e| e.to_string())), &want, acc);
    report("listallinfo-directory", catch(|| c::ListAllIn::directory("some dir").response(frame()).map(|v| v.iter().map(observe_song).collect()).map_err(|e| e.to_string())), &want_plain, acc);
    if want.len() <= 1 && only_songs {
        report("currentsong", catch(|| c::CurrentSong.response(frame()).map(|v| v.iter().map(observe_queued).collect()).map_err(|e| e.to_string())), &want, acc);
    }
}

fn check_entry_points_agree(fields: &[(String, String)], acc: &mut Acc) {
    let frame = || make_frames(&[AFrame { fields: fields.to_vec(), binary: None }], false).remove(0);
    acc.listings += 1;
    acc.nontrivial += 1;
    let queued: Vec<(&str, Result<Result<Vec<ASong>, String>, String>)> = vec![
        ("playlistinfo", catch(|| c::Queue.response(frame()).map(|v| v.iter().map(observe_queued).collect()).map_err(|e| e.to_string()))),
        ("currentsong", catch(|| c::CurrentSong.response(frame()).map(|v| v.iter().map(observe_queued).collect()).map_err(|e| e.to_string()))),
        ("playlistid", catch(|| c::Queue::song(c::SongId(5)).response(frame()).map(|v| v.iter().map(observe_queued).collect()).map_err(|e| e.to_string()))),
    ];
    let plain: Vec<(&str, Result<Result<Vec<ASong>, String>, String>)> = vec![
        ("find", catch(|| c::Find::new(mpd_client::filter::Filter::tag(mpd_client::tag::Tag::Artist, "x")).response(frame()).map(|v| v.iter().map(observe_song).collect()).map_err(|e| e.to_string()))),
        ("listplaylistinfo", catch(|| c::GetPlaylist("p").response(frame()).map(|v| v.iter().map(observe_song).collect()).map_err(|e| e.to_string()))),
        ("listallinfo", catch(|| c::ListAllIn::root().response(frame()).map(|v| v.iter().map(observe_song).collect()).map_err(|e| e.to_string()))),
    ];
    for group in [queued, plain] {
        acc.decodes += group.len() as u64;
        for (name, r) in &group[1..] {
            if *r != group[0].1 {
                acc.viol.push(Violation::new(
                    "C14/entry-points-disagree",
                    format!("the reply {:?} decodes to {:?} through {} but to {:?} through {name}", fields.iter().map(|(k, v)| format!("{k}: {v}")).collect::<Vec<_>>(), group[0].1, group[0].0, r),
                    json!({"entry_points_fields": fields}),
                ));
            }
        }
    }
}

fn big_song_case(n: usize, acc: &mut Acc, verbose: bool) {
    let names = ["Performer", "Artist", "Genre", "Composer", "X-Custom"];
    let mut fields: Vec<(String, String)> = vec![("file".into(), "big.flac".into())];
    let mut tags: BTreeMap<String, Vec<String>> = BTreeMap::new();
    for i in 0..n {
        let name = names[(i * i + i / 2) % names.len()];
        let value = format!("{:03}", (n - i) * 7 % 1000);
        fields.push((name.to_string(), value.clone()));
        tags.entry(name.to_string()).or_default().push(value);
    }
    let second = vec![("file".to_string(), "after.flac".to_string()), ("Title".to_string(), "t".to_string())];
    let mut want2 = ASong { url: "after.flac".into(), ..Default::default() };
    want2.tags.insert("Title".into(), vec!["t".into()]);
    let want = ASong { url: "big.flac".into(), tags, ..Default::default() };
    check_fields_inner(&fields, &[want.clone()], &json!({"many_tag_lines": n}), false, true, acc, verbose);
    let mut both = fields.clone();
    both.extend(second);
    check_fields_inner(&both, &[want, want2], &json!({"many_tag_lines": n}), true, true, acc, verbose);
}

/// every ordered selection of at most `k` distinct lines
fn selections(k: usize) -> Vec<Vec<usize>> {
    let mut out = vec![vec![]];
    let mut layer: Vec<Vec<usize>> = vec![vec![]];
    for _ in 0..k {
        let mut next = Vec::new();
        for s in &layer {
            for i in 0..LINES.len() {
                if !s.contains(&i) {
                    let mut t = s.clone();
                    t.push(i);
                    next.push(t);
                }
            }
        }
        out.extend(next.iter().cloned());
        layer = next;
    }
    out
}

fn entry_pool() -> Vec<Entry> {
    let song = |u: &str, l: &[usize]| Entry::Song { url: u.to_string(), lines: l.to_vec() };
    vec![
        song("a.flac", &[]),
        song("dir/b.mp3", &[1, 9, 11]),
        song("c.ogg", &[5, 0, 7, 8, 6]),
        song("http://x/y", &[9, 10, 12, 2]),
        song("d.flac", &[0, 1, 5]),
        song("e e.flac", &[4, 3, 11]),
        song("  leading blanks.flac", &[9, 13, 14, 15, 17, 18, 16]),
        Entry::Directory { name: "dir".into(), lm: false },
        Entry::Directory { name: "dir two".into(), lm: true },
        Entry::Playlist { name: "p.m3u".into(), lm: false },
        Entry::Playlist { name: "q.m3u".into(), lm: true },
    ]
}

pub fn run(tier: Tier) -> i32 {
    let mut ctx = Ctx::new("C14", tier, "model_checking");
    ctx.assume("well-formed listings: every song starts with a non-empty `file` line; directory / playlist entries carry at most a Last-Modified line; values are MPD's spellings (seconds with three decimals, RFC 3339 dates)");
    let sel = selections(tier.pick(4, 5));
    let acc1 = sel
        .par_chunks(256)
        .map(|chunk| {
            let mut acc = Acc::default();
            for lines in chunk {
                check_listing(&[Entry::Song { url: "s.flac".into(), lines: lines.clone() }], &mut acc, false);
            }
            acc
        })
        .reduce(Acc::default, Acc::merge);
    let pool = entry_pool();
    let mut listings: Vec<Vec<Entry>> = vec![vec![]];
    let mut layer: Vec<Vec<Entry>> = vec![vec![]];
    for _ in 0..tier.pick(3, 4) {
        let mut next = Vec::new();
        for l in &layer {
            for e in &pool {
                let mut t = l.clone();
                t.push(e.clone());
                next.push(t);
            }
        }
        listings.extend(next.iter().cloned());
        layer = next;
    }
    let acc2 = listings
        .par_chunks(256)
        .map(|chunk| {
            let mut acc = Acc::default();
            for l in chunk {
                check_listing(l, &mut acc, false);
            }
            acc
        })
        .reduce(Acc::default, Acc::merge);
    // every tag name of the protocol as a line of a song (one at a time, and all together)
    let mut acc3 = Acc::default();
    {
        let mut all_fields: Vec<(String, String)> = vec![("file".into(), "all.flac".into())];
        let mut all_tags: BTreeMap<String, Vec<String>> = BTreeMap::new();
        for (i, name) in TAG_NAMES.iter().enumerate() {
            for (url, extra) in [("one.flac", None), ("two.flac", Some(("Pos", "4")))] {
                let mut fields: Vec<(String, String)> = vec![("file".into(), url.into()), (name.to_string(), format!("value {i}")), (name.to_string(), format!("second {i}"))];
                if let Some((k, v)) = extra {
                    fields.push((k.into(), v.into()));
                }
                let mut want = ASong { url: url.into(), ..Default::default() };
                want.tags.insert(name.to_string(), vec![format!("value {i}"), format!("second {i}")]);
                if extra.is_some() {
                    want.position = 4;
                }
                check_fields(&fields, &[want], &json!({"tag_line": name}), &mut acc3, false);
            }
            all_fields.push((name.to_string(), format!("v{i}")));
            all_tags.insert(name.to_string(), vec![format!("v{i}")]);
        }
        let want = ASong { url: "all.flac".into(), tags: all_tags, ..Default::default() };
        check_fields(&all_fields, &[want], &json!({"tag_line": "all"}), &mut acc3, false);
        // tag names are matched without regard to letter case (C20): other spellings of a known
        // name are lines of the same tag, in wire order; an unknown name stays as it was sent
        for (i, name) in TAG_NAMES.iter().enumerate() {
            // (from the protocol's table, not from the code under test)
            let known = *name != "X-Custom";
            for variant in [name.to_lowercase(), name.to_uppercase()] {
                if variant == *name {
                    continue;
                }
                let fields: Vec<(String, String)> = vec![("file".into(), "c.flac".into()), (name.to_string(), format!("canonical {i}")), (variant.clone(), format!("variant {i}")), (name.to_string(), format!("again {i}"))];
                let mut want = ASong { url: "c.flac".into(), ..Default::default() };
                if known {
                    want.tags.insert(name.to_string(), vec![format!("canonical {i}"), format!("variant {i}"), format!("again {i}")]);
                } else {
                    want.tags.insert(name.to_string(), vec![format!("canonical {i}"), format!("again {i}")]);
                    want.tags.insert(variant.clone(), vec![format!("variant {i}")]);
                }
                check_fields(&fields, &[want], &json!({"tag_line": name, "variant": variant}), &mut acc3, false);
            }
        }
    }
    // songs with many tag lines (round 6: grouping by an unstable sort is order-preserving below 21 / 33
    // elements): 20..300 lines cycling irregularly over five tags, distinct values; per tag, wire order
    for n in [20usize, 21, 32, 33, 34, 40, 64, 100, 300] {
        big_song_case(n, &mut acc3, false);
    }
    // (round 7) a one-song reply is the same song whichever command asked for it: currentsong, playlistinfo and
    // playlistid decode it alike, and so do find / listplaylistinfo / listallinfo - with repeated tag lines (a
    // repeated *attribute* line is not well-formed output and is left out: nothing says which value wins there)
    for (key, v1, v2) in [("Title", "a", "b"), ("Artist", "x", "x"), ("X-Custom", "1", "2"), ("Performer", "", " ")] {
        for lines in [vec![(key, v1), ("Title", "t"), (key, v2)], vec![(key, v1), (key, v2)], vec![("Artist", "x"), (key, v1), (key, v2), (key, v1)]] {
            let mut fields: Vec<(String, String)> = vec![("file".into(), "r.flac".into())];
            fields.extend(lines.iter().map(|(k, v)| (k.to_string(), v.to_string())));
            check_entry_points_agree(&fields, &mut acc3);
        }
    }
    // modification dates in other RFC 3339 spellings (offsets, fractions): `Timestamp::raw` is documented to return
    // the string "as it was returned by the server", so the text itself is compared
    for text in crate::props::c16::TIMESTAMP_SPELLINGS {
        let fields: Vec<(String, String)> = vec![("file".into(), "m.flac".into()), ("Last-Modified".into(), text.to_string()), ("Title".into(), "t".into())];
        let mut want = ASong { url: "m.flac".into(), last_modified: Some(text.to_string()), ..Default::default() };
        want.tags.insert("Title".into(), vec!["t".into()]);
        check_fields(&fields, &[want], &json!({"last_modified_text": text}), &mut acc3, false);
    }
    // durations in other decimal spellings than MPD's %.3f (fewer / more fraction digits)
    for text in DURATION_SPELLINGS {
        let fields: Vec<(String, String)> = vec![("file".into(), "d.flac".into()), ("duration".into(), text.to_string()), ("Range".into(), format!("{text}-{text}"))];
        let d = dur(text);
        let want = ASong { url: "d.flac".into(), duration: Some(d), range: Some((d, Some(d))), ..Default::default() };
        check_fields(&fields, &[want], &json!({"duration_text": text}), &mut acc3, false);
    }
    // every millisecond value in a range as a song duration / range bound
    let ms_max = tier.pick(5_000u64, 60_000u64);
    let acc4 = (0..=ms_max)
        .into_par_iter()
        .map(|ms| {
            let mut acc = Acc::default();
            let text = format!("{}.{:03}", ms / 1000, ms % 1000);
            let fields: Vec<(String, String)> = vec![("file".into(), "d.flac".into()), ("duration".into(), text.clone()), ("Range".into(), format!("{text}-"))];
            let d = Duration::from_millis(ms);
            let want = ASong { url: "d.flac".into(), duration: Some(d), range: Some((d, None)), ..Default::default() };
            check_fields(&fields, &[want], &json!({"duration_ms": ms}), &mut acc, false);
            acc
        })
        .reduce(Acc::default, Acc::merge);
    let acc = acc1.merge(acc2).merge(acc3).merge(acc4);
    let mut cov = Coverage::default();
    cov.evaluations = acc.decodes;
    cov.distinct_nontrivial = acc.nontrivial;
    cov.rule = format!(
        "one-song listings with every ordered selection of <= {} distinct lines out of 19 (duration, Time, two Range forms, Format, Last-Modified, Prio, Pos, Id, Title twice, Artist, unknown tag): {} shapes; all listings of 0..={} entries over 10 entry kinds (6 song shapes, directory / playlist with and without their own Last-Modified): {} listings; each decoded by playlistinfo, playlistinfo RANGE / one position / one id, find (plain, windowed, sorted), listplaylistinfo, listallinfo (root, directory) (and currentsong for <= 1 song); songs of 20..300 tag lines; plus every one of the protocol's 31 tag names (and an unknown one) as a repeated line of a song, one at a time and all together; every millisecond value 0.000..5.000 s (thorough: ..60.000 s) as duration and Range start, 18 other decimal spellings (1..6 fraction digits); lower / upper case spellings of every tag name mixed with the canonical one; non-trivial = listings with several entries or a song with tags / duration",
        tier.pick(4, 5),
        sel.len(),
        tier.pick(3, 4),
        listings.len()
    );
    cov.states = acc.listings;
    cov.transitions = acc.decodes;
    cov.traces = acc.decodes;
    cov.exhaustive = true;
    cov.set("listings", json!(acc.listings));
    cov.set("state_meaning", json!("states = distinct abstract listings; transitions = decodes by the real typed commands on frames parsed by the real parser"));
    cov.samples = vec![listing_json(&[pool[1].clone(), pool[7].clone(), pool[2].clone(), pool[9].clone()]), listing_json(&[Entry::Song { url: "s.flac".into(), lines: vec![1, 0, 10] }])];
    let (mut cov, mut viol) = (cov, acc.viol);
    second_build_pass(&ctx, &mut cov, &mut viol);
    finish(&ctx, cov, viol)
}

pub fn replay(case: &Value) -> i32 {
    if let Some(name) = case.get("tag_line").and_then(|v| v.as_str()) {
        println!("replay C14: song with tag line {name}");
        let mut acc = Acc::default();
        let names: Vec<&str> = if name == "all" { TAG_NAMES.to_vec() } else { vec![name] };
        for n in names {
            let mut fields: Vec<(String, String)> = vec![("file".into(), "one.flac".into()), (n.to_string(), "value".into())];
            let mut want = ASong { url: "one.flac".into(), ..Default::default() };
            want.tags.insert(n.to_string(), vec!["value".into()]);
            if let Some(variant) = case.get("variant").and_then(|v| v.as_str()) {
                // another spelling of the name: the same tag if the name is a known one
                fields.push((variant.to_string(), "variant".into()));
                let known = n != "X-Custom";
                if known {
                    want.tags.get_mut(n).unwrap().push("variant".into());
                } else {
                    want.tags.insert(variant.to_string(), vec!["variant".into()]);
                }
            }
            check_fields(&fields, &[want], case, &mut acc, true);
        }
        if acc.viol.is_empty() {
            println!("replay: property holds on this case");
            return 0;
        }
        for (sig, (_, ex)) in &acc.viol.by_sig {
            println!("replay: VIOLATION sig={sig}: {}", ex[0].what);
        }
        return 1;
    }
    if let Some(n) = case.get("many_tag_lines").and_then(|v| v.as_u64()) {
        println!("replay C14: song with {n} tag lines");
        let mut acc = Acc::default();
        big_song_case((n as usize).min(100_000), &mut acc, true);
        return if acc.viol.is_empty() { println!("replay: property holds on this case"); 0 } else { println!("replay: VIOLATION"); 1 };
    }
    if let Some(fs) = case.get("entry_points_fields").and_then(|v| v.as_array()) {
        let fields: Vec<(String, String)> = fs.iter().filter_map(|p| Some((p.get(0)?.as_str()?.to_string(), p.get(1)?.as_str()?.to_string()))).collect();
        println!("replay C14: reply {fields:?} through every entry point");
        let mut acc = Acc::default();
        check_entry_points_agree(&fields, &mut acc);
        for (sig, (_, ex)) in &acc.viol.by_sig {
            println!("replay: VIOLATION sig={sig}: {}", ex[0].what);
        }
        return if acc.viol.is_empty() { println!("replay: property holds on this case"); 0 } else { 1 };
    }
    if let Some(text) = case.get("last_modified_text").and_then(|v| v.as_str()) {
        println!("replay C14: song with Last-Modified {text}");
        let fields: Vec<(String, String)> = vec![("file".into(), "m.flac".into()), ("Last-Modified".into(), text.to_string()), ("Title".into(), "t".into())];
        let mut want = ASong { url: "m.flac".into(), last_modified: Some(text.to_string()), ..Default::default() };
        want.tags.insert("Title".into(), vec!["t".into()]);
        let mut acc = Acc::default();
        check_fields(&fields, &[want], case, &mut acc, true);
        return if acc.viol.is_empty() { println!("replay: property holds on this case"); 0 } else { println!("replay: VIOLATION"); 1 };
    }
    if let Some(text) = case.get("duration_text").and_then(|v| v.as_str()) {
        println!("replay C14: song with duration {text}");
        let fields: Vec<(String, String)> = vec![("file".into(), "d.flac".into()), ("duration".into(), text.to_string()), ("Range".into(), format!("{text}-{text}"))];
        let d = dur(text);
        let want = ASong { url: "d.flac".into(), duration: Some(d), range: Some((d, Some(d))), ..Default::default() };
        let mut acc = Acc::default();
        check_fields(&fields, &[want], case, &mut acc, true);
        return if acc.viol.is_empty() { println!("replay: property holds on this case"); 0 } else { println!("replay: VIOLATION"); 1 };
    }
    if let Some(ms) = case.get("duration_ms").and_then(|v| v.as_u64()) {
        let text = format!("{}.{:03}", ms / 1000, ms % 1000);
        println!("replay C14: song with duration {text}");
        let fields: Vec<(String, String)> = vec![("file".into(), "d.flac".into()), ("duration".into(), text.clone()), ("Range".into(), format!("{text}-"))];
        let d = Duration::from_millis(ms);
        let want = ASong { url: "d.flac".into(), duration: Some(d), range: Some((d, None)), ..Default::default() };
        let mut acc = Acc::default();
        check_fields(&fields, &[want], case, &mut acc, true);
        return if acc.viol.is_empty() { println!("replay: property holds on this case"); 0 } else { println!("replay: VIOLATION"); 1 };
    }
    let listing = listing_from_json(case);
    println!("replay C14: listing {listing:?}");
    let mut acc = Acc::default();
    check_listing(&listing, &mut acc, true);
    if acc.viol.is_empty() {
        println!("replay: property holds on this case");
        0
    } else {
        for (sig, (_, ex)) in &acc.viol.by_sig {
            println!("replay: VIOLATION sig={sig}: {}", ex[0].what);
        }
        1
    }
}
