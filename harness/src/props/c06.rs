//! C06 — command arguments reach the server byte for byte.
//!
//! Bounded-exhaustive enumeration of argument strings over a class-representative alphabet, all
//! argument positions (1, 2, 3 arguments), the three string `Argument` impls, `Connection::send`
//! and `CommandList` rendering; decoded by the port of MPD's tokenizer.

use std::borrow::Cow;

use mpd_protocol::{Command, CommandList};
use rayon::prelude::*;
use serde_json::{json, Value};

use crate::{
    common::*,
    io::{wire_async_limited, wire_async_limited_waiting, wire_of_command, wire_of_list, wire_sync_limited, WireItem},
    mpdref::tokenizer::{split_lines, tokenize},
};

/// command-name symbols: lower / upper case letter, underscore, digit, and characters outside
/// MPD's command-word alphabet
pub const NAME_SIGMA: &[&str] = &["a", "Z", "_", "7", "-", "\u{e9}"];

/// one representative per class either side distinguishes
pub const SIGMA: &[&str] = &["a", " ", "\t", "\r", "\x01", "\"", "'", "\\", "\0", "\u{e9}", "~", "\n"];

#[derive(Clone, Copy, Debug, PartialEq, Eq)]
enum Via {
    Str,
    String,
    Cow,
    /// `Cow::Owned` (e.g. what `String::from_utf8_lossy` returns)
    CowOwned,
    /// `&String` / `&&str` through the blanket impl for references
    RefString,
    RefRefStr,
}

const ALL_VIAS: [Via; 6] = [Via::Str, Via::String, Via::Cow, Via::CowOwned, Via::RefString, Via::RefRefStr];

fn add(cmd: &mut Command, arg: &str, via: Via) -> bool {
    match via {
        Via::Str => cmd.add_argument(arg).is_ok(),
        Via::String => cmd.add_argument(String::from(arg)).is_ok(),
        Via::Cow => cmd.add_argument(Cow::Borrowed(arg)).is_ok(),
        Via::CowOwned => cmd.add_argument(Cow::<str>::Owned(arg.to_string())).is_ok(),
        Via::RefString => cmd.add_argument(&String::from(arg)).is_ok(),
        Via::RefRefStr => cmd.add_argument(&arg).is_ok(),
    }
}

/// Build `name args…`; `None` if the builder rejected any argument.
fn build(name: &str, args: &[&str], via: Via) -> Option<Command> {
    let mut cmd = Command::build(name).ok()?;
    for a in args {
        if !add(&mut cmd, a, via) {
            return None;
        }
    }
    Some(cmd)
}

fn roundtrips(name: &str, args: &[&str], line: &[u8]) -> Result<(), String> {
    match tokenize(line) {
        Err(e) => Err(format!("MPD rejects the line: {e}")),
        Ok(req) => {
            if req.name != name.as_bytes() {
                return Err(format!("command word read back as {:?}", show_bytes(&req.name)));
            }
            let want: Vec<&[u8]> = args.iter().map(|a| a.as_bytes()).collect();
            let got: Vec<&[u8]> = req.args.iter().map(|a| a.as_slice()).collect();
            if want != got {
                return Err(format!(
                    "arguments read back as [{}]",
                    got.iter().map(|g| format!("<{}>", show_bytes(g))).collect::<Vec<_>>().join(" ")
                ));
            }
            Ok(())
        }
    }
}

/// The rendering the unit tests pin for arguments with quotes/backslashes but no blank:
/// unquoted, each of `"` `'` `\` prefixed by a backslash.
fn pinned_unquoted(arg: &str) -> Vec<u8> {
    let mut out = Vec::new();
    for &b in arg.as_bytes() {
        if b == b'"' || b == b'\'' || b == b'\\' {
            out.push(b'\\');
        }
        out.push(b);
    }
    out
}

fn class_of_failing_arg(arg: &str) -> &'static str {
    let b = arg.as_bytes();
    if b.is_empty() {
        return "empty-argument";
    }
    if b.contains(&0) {
        return "nul-byte";
    }
    if b.iter().any(|&c| c <= 0x20 && c != b' ' && c != b'\t') {
        return "control-char";
    }
    if b.iter().all(|&c| c > 0x20) && b.iter().any(|&c| c == b'"' || c == b'\'' || c == b'\\') {
        // tight: only the rendering pinned by the unit tests counts as this class
        if let Some(cmd) = build("cmd", &[arg], Via::Str) {
            let mut want = b"cmd ".to_vec();
            want.extend(pinned_unquoted(arg));
            want.push(b'\n');
            if wire_of_command(cmd) == want {
                return "unquoted-escape";
            }
        }
        return "escape-other";
    }
    "other"
}

fn signature(name: &str, args: &[&str]) -> String {
    // the command word itself?
    if let Some(cmd) = build(name, &[], Via::Str) {
        let w = wire_of_command(cmd);
        if w.last() != Some(&b'\n') || roundtrips(name, &[], &w[..w.len() - 1]).is_err() {
            return "C06/command-word".to_string();
        }
    }
    let mut classes: Vec<&'static str> = Vec::new();
    for a in args {
        let alone_ok = match build("cmd", &[a], Via::Str) {
            None => true, // rejected alone: nothing claimed
            Some(cmd) => {
                let w = wire_of_command(cmd);
                w.last() == Some(&b'\n') && roundtrips("cmd", &[a], &w[..w.len() - 1]).is_ok()
            }
        };
        if !alone_ok {
            let c = class_of_failing_arg(a);
            if !classes.contains(&c) {
                classes.push(c);
            }
        }
    }
    classes.sort();
    if classes.is_empty() {
        "C06/combination".to_string()
    } else {
        format!("C06/{}", classes.join("+"))
    }
}

fn case_json(name: &str, args: &[&str], via: Via, path: &str) -> Value {
    json!({
        "name": name,
        "args_hex": args.iter().map(|a| hex(a.as_bytes())).collect::<Vec<_>>(),
        "args_shown": args.iter().map(|a| show_bytes(a.as_bytes())).collect::<Vec<_>>(),
        "via": format!("{via:?}"),
        "path": path,
    })
}

#[derive(Default)]
struct Acc {
    evaluations: u64,
    accepted: u64,
    rejected: u64,
    nontrivial: u64,
    lines: u64,
    viol: Violations,
}

impl Acc {
    fn merge(mut self, o: Acc) -> Acc {
        self.evaluations += o.evaluations;
        self.accepted += o.accepted;
        self.rejected += o.rejected;
        self.nontrivial += o.nontrivial;
        self.lines += o.lines;
        self.viol.merge(o.viol);
        self
    }
}

fn is_nontrivial(args: &[&str]) -> bool {
    args.iter().any(|a| a.is_empty() || a.bytes().any(|b| b <= 0x20 || b == b'"' || b == b'\'' || b == b'\\' || b >= 0x80))
}

/// One case: build through all three string impls, send directly and inside a list.
fn check_case(name: &str, args: &[&str], acc: &mut Acc, verbose: bool) {
    acc.evaluations += 1;
    if is_nontrivial(args) {
        acc.nontrivial += 1;
    }
    let built: Vec<Option<Command>> = ALL_VIAS.iter().map(|v| build(name, args, *v)).collect();
    // all string impls must agree
    if !built.iter().all(|b| *b == built[0]) {
        acc.viol.push(Violation::new(
            "C06/impls-disagree",
            format!("&str / String / Cow::Borrowed / Cow::Owned / &String / &&str render {:?} differently", args),
            case_json(name, args, Via::Str, "send"),
        ));
    }
    let Some(cmd) = built[0].clone() else {
        acc.rejected += 1;
        if verbose {
            println!("  builder rejected the arguments (nothing is claimed)");
        }
        return;
    };
    acc.accepted += 1;

    // path 1: Connection::send
    let w = wire_of_command(cmd.clone());
    acc.lines += 1;
    if verbose {
        println!("  wire (send): {}", show_bytes(&w));
    }
    let verdict = if w.last() != Some(&b'\n') {
        Err("no terminating LF".to_string())
    } else {
        roundtrips(name, args, &w[..w.len() - 1])
    };
    if let Err(why) = verdict {
        if verbose {
            println!("  MISMATCH: {why}");
        }
        acc.viol.push(Violation::new(
            signature(name, args),
            format!("{} [{}] -> wire {:?}: {}", name, args.iter().map(|a| format!("<{}>", show_bytes(a.as_bytes()))).collect::<Vec<_>>().join(" "), show_bytes(&w), why),
            case_json(name, args, Via::Str, "send"),
        ));
        return;
    } else if verbose {
        println!("  tokenizer reads back exactly the arguments");
    }

    // path 1b: the asynchronous connection (the path every `Client` request takes) and the
    // blocking one over transports that accept only a few bytes per write
    for (what, got) in [
        ("AsyncConnection::send, 3 bytes per write", wire_async_limited(WireItem::Command(cmd.clone()), 3)),
        ("AsyncConnection::send_list (one command), whole writes", wire_async_limited(WireItem::List(CommandList::new(cmd.clone())), usize::MAX)),
        ("AsyncConnection::send_list (one command), 1 byte per write", wire_async_limited(WireItem::List(CommandList::new(cmd.clone())), 1)),
        ("Connection::send, 2 bytes per write", wire_sync_limited(WireItem::Command(cmd.clone()), 2)),
        // (round 7) partial writes with the transport busy (Pending) in between: progress must survive the wait
        ("AsyncConnection::send, 2 bytes per write, busy between writes", wire_async_limited_waiting(WireItem::Command(cmd.clone()), 2)),
        ("AsyncConnection::send_list (one command), 4 bytes per write, busy between writes", wire_async_limited_waiting(WireItem::List(CommandList::new(cmd.clone())), 4)),
    ] {
        acc.lines += 1;
        if got.as_deref() != Ok(&w[..]) {
            acc.viol.push(Violation::new(
                "C06/wire-depends-on-transport",
                format!("{what}: {:?} reaches the transport as {:?}, Connection::send wrote {:?}", args, got.as_ref().map(|g| show_bytes(g)), show_bytes(&w)),
                case_json(name, args, Via::Str, "send"),
            ));
            return;
        }
    }

    // path 2: inside a two-element list (second position), framed by a fixed first command
    let list = CommandList::new(Command::new("first")).command(cmd);
    let w = wire_of_list(list.clone());
    match wire_async_limited(WireItem::List(list.clone()), 5).and_then(|a| wire_async_limited_waiting(WireItem::List(list), 7).map(|b| if a == b { a } else { b })) {
        Ok(a) if a == w => {}
        other => {
            acc.viol.push(Violation::new(
                "C06/wire-depends-on-transport",
                format!("AsyncConnection::send_list, 5 bytes per write: {:?} reaches the transport as {:?}, Connection::send_list wrote {:?}", args, other.as_ref().map(|g| show_bytes(g)), show_bytes(&w)),
                case_json(name, args, Via::Str, "list"),
            ));
            return;
        }
    }
    let (lines, rest) = split_lines(&w);
    acc.lines += lines.len() as u64;
    let ok = rest.is_empty()
        && lines.len() == 4
        && lines[0] == b"command_list_ok_begin"
        && lines[1] == b"first"
        && lines[3] == b"command_list_end"
        && roundtrips(name, args, lines[2]).is_ok();
    if !ok {
        acc.viol.push(Violation::new(
            "C06/list-rendering-differs",
            format!("inside a list {:?} renders to {:?}", args, show_bytes(&w)),
            case_json(name, args, Via::Str, "list"),
        ));
    }
}

pub fn run(tier: Tier) -> i32 {
    let mut ctx = Ctx::new("C06", tier, "model_checking");
    ctx.assume("MPD's tokenizer is as ported in mpdref::tokenizer (Tokenizer.cxx NextWord/NextParam/NextString/NextUnquoted, StripRight, C-string semantics)");
    ctx.assume("arguments the builder rejects are outside the claim");

    let single_len = tier.pick(5, 8);
    let pair_pool = strings_over(SIGMA, tier.pick(2, 3));
    let triple_pool = strings_over(SIGMA, 1);

    // every string of length 0..=single_len, generated from its index (not materialised)
    let mut total: u64 = 0;
    let mut offsets = vec![0u64];
    for l in 0..=single_len {
        total += (SIGMA.len() as u64).pow(l as u32);
        offsets.push(total);
    }
    let nth = |mut i: u64| -> String {
        let mut len = 0;
        while i >= offsets[len + 1] {
            len += 1;
        }
        i -= offsets[len];
        let mut s = String::new();
        for _ in 0..len {
            s.push_str(SIGMA[(i % SIGMA.len() as u64) as usize]);
            i /= SIGMA.len() as u64;
        }
        s
    };
    let chunk = 8192u64;
    let acc1 = (0..total.div_ceil(chunk))
        .into_par_iter()
        .map(|c| {
            let mut acc = Acc::default();
            for i in c * chunk..((c + 1) * chunk).min(total) {
                let s = nth(i);
                check_case("cmd", &[s.as_str()], &mut acc, false);
            }
            acc
        })
        .reduce(Acc::default, Acc::merge);

    let acc2 = pair_pool
        .par_iter()
        .map(|a| {
            let mut acc = Acc::default();
            for b in &pair_pool {
                check_case("cmd", &[a.as_str(), b.as_str()], &mut acc, false);
            }
            acc
        })
        .reduce(Acc::default, Acc::merge);

    let acc3 = triple_pool
        .par_iter()
        .map(|a| {
            let mut acc = Acc::default();
            for b in &triple_pool {
                for c in &triple_pool {
                    check_case("cmd", &[a.as_str(), b.as_str(), c.as_str()], &mut acc, false);
                }
            }
            acc
        })
        .reduce(Acc::default, Acc::merge);

    // many arguments (up to MPD's COMMAND_ARGV_MAX) and other command names
    let mut acc4 = Acc::default();
    for n in [4usize, 8, 15] {
        for filler in ["a", "a b", "x\ty", "\u{e9}"] {
            let args: Vec<&str> = (0..n).map(|_| filler).collect();
            check_case("cmd", &args, &mut acc4, false);
        }
    }
    for name in ["a", "Z", "sticker", "long_command_name"] {
        for s in &pair_pool {
            check_case(name, &[s.as_str()], &mut acc4, false);
        }
    }

    // one argument per Unicode scalar value (round 6: a table indexed by `c as u8` treats U+0122 like '"'):
    // every character U+0080..=U+33FF, U+FF00..=U+FFFF and U+1F000..=U+1F6FF, bare (sent unquoted) and next
    // to a blank (sent quoted), plus longer arguments whose only blank sits in the last len % 8 bytes
    let scalars: Vec<char> = (0x80u32..=0x33FF).chain(0xFF00..=0xFFFF).chain(0x1F000..=0x1F6FF).filter_map(char::from_u32).collect();
    let acc6 = scalars
        .par_chunks(512)
        .map(|chunk| {
            let mut acc = Acc::default();
            for c in chunk {
                check_case("cmd", &[format!("x{c}y").as_str()], &mut acc, false);
                if tier == Tier::Thorough || (*c as u32) % 16 == 2 || (*c as u32) % 256 == 0x27 || (*c as u32) % 256 == 0x5c || (*c as u32) % 256 == 0x20 {
                    check_case("cmd", &[format!("{c} {c}").as_str()], &mut acc, false);
                }
            }
            acc
        })
        .reduce(Acc::default, Acc::merge);
    let mut acc7 = Acc::default();
    for len in 1..=tier.pick(40usize, 130) {
        for pos in 0..len {
            for sep in [" ", "\t", "\x01", "\"", "\u{e9}"] {
                let mut s: String = "a".repeat(pos);
                s.push_str(sep);
                s.push_str(&"a".repeat(len - pos - 1));
                check_case("cmd", &[s.as_str()], &mut acc7, false);
                check_case("cmd", &["lead", s.as_str(), "trail"], &mut acc7, false);
            }
        }
    }
    let acc4 = acc4.merge(acc6).merge(acc7);

    // (round 7) arguments handed over in one reused buffer (same address, same length, other content), as an
    // application that overwrites a String between commands does: each must go out as itself
    let mut acc8 = Acc::default();
    {
        let pool: Vec<String> = strings_over(SIGMA, 2).into_iter().filter(|s| !s.contains('\n') && !s.contains('\0')).collect();
        let mut buf = String::with_capacity(64);
        for a in &pool {
            for b in &pool {
                if a == b || a.len() != b.len() {
                    continue;
                }
                buf.clear();
                buf.push_str(a);
                let first = build("cmd", &[buf.as_str()], Via::Str).map(wire_of_command);
                buf.clear();
                buf.push_str(b);
                let second = build("cmd", &[buf.as_str()], Via::Str).map(wire_of_command);
                let fresh_a = build("cmd", &[a.clone().as_str()], Via::String).map(wire_of_command);
                let fresh_b = build("cmd", &[b.clone().as_str()], Via::String).map(wire_of_command);
                acc8.evaluations += 1;
                acc8.nontrivial += 1;
                acc8.lines += 2;
                if first != fresh_a || second != fresh_b {
                    acc8.viol.push(Violation::new(
                        "C06/rendering-depends-on-history",
                        format!("argument {:?} then {:?} through one reused buffer are sent as {:?} and {:?}; each on its own is sent as {:?} and {:?}", show_bytes(a.as_bytes()), show_bytes(b.as_bytes()), first.as_ref().map(|w| show_bytes(w)), second.as_ref().map(|w| show_bytes(w)), fresh_a.as_ref().map(|w| show_bytes(w)), fresh_b.as_ref().map(|w| show_bytes(w))),
                        case_json("cmd", &[a.as_str(), b.as_str()], Via::Str, "reused-buffer"),
                    ));
                }
            }
        }
    }
    let acc4 = acc4.merge(acc8);

    // every command name the builder accepts must be read back as that command word
    let name_pool = strings_over(NAME_SIGMA, tier.pick(3, 4));
    let acc5 = name_pool
        .par_iter()
        .map(|n| {
            let mut acc = Acc::default();
            if n.is_empty() {
                return acc;
            }
            for args in [&[][..], &["x y"][..]] {
                check_case(n, args, &mut acc, false);
            }
            acc
        })
        .reduce(Acc::default, Acc::merge);

    let acc = acc1.merge(acc2).merge(acc3).merge(acc4).merge(acc5);

    let mut cov = Coverage::default();
    cov.evaluations = acc.evaluations;
    cov.distinct_nontrivial = acc.nontrivial;
    cov.rule = format!(
        "every string over {} class representatives {:?} of length 0..={} as single argument, all pairs of strings of length <=2 (thorough: <=3), all triples of length <=1, plus long argument lists, one argument x<c>y per Unicode scalar value in U+0080..U+33FF, U+FF00..U+FFFF, U+1F000..U+1F6FF (a subset also next to a blank; thorough: all), and arguments of every length 1..=40 (thorough: ..=130) with one separator / quote / non-ASCII character at every position, pairs of equally long arguments through one reused buffer, transports that are busy between partial writes; each case is distinct by construction; non-trivial = some argument is empty or contains a byte <=0x20, a quote, a backslash or a non-ASCII byte",
        SIGMA.len(),
        SIGMA.iter().map(|s| show_bytes(s.as_bytes())).collect::<Vec<_>>(),
        single_len
    );
    cov.states = acc.evaluations;
    cov.transitions = acc.lines;
    cov.traces = acc.accepted;
    cov.exhaustive = true;
    cov.set("accepted_by_builder", json!(acc.accepted));
    cov.set("rejected_by_builder", json!(acc.rejected));
    cov.set("state_meaning", json!("states = distinct (name, argument list) inputs; transitions = request lines rendered by the real code and decoded by the tokenizer port"));
    cov.set("bounds", json!({"single_argument_max_len": single_len, "pair_max_len": tier.pick(2, 3), "triple_max_len": 1, "impls": ["&str", "String", "Cow::Borrowed", "Cow::Owned", "&String", "&&str"], "paths": ["Connection::send", "CommandList render (N=2)"]}));
    cov.samples = vec![
        json!({"args": ["a b"], "wire": show_bytes(&wire_of_command(Command::new("cmd").argument("a b")))}),
        json!({"args": ["\u{e9}~", "x\ty"], "wire": show_bytes(&wire_of_command(Command::new("cmd").argument("\u{e9}~").argument("x\ty")))}),
        json!({"args": ["a \"b\\"], "wire": show_bytes(&wire_of_command(Command::new("cmd").argument("a \"b\\")))}),
    ];
    finish(&ctx, cov, acc.viol)
}

pub fn replay(case: &Value) -> i32 {
    let name = case["name"].as_str().unwrap_or("cmd").to_string();
    let args: Vec<String> = case["args_hex"]
        .as_array()
        .map(|a| a.iter().map(|h| String::from_utf8_lossy(&unhex(h.as_str().unwrap_or(""))).into_owned()).collect())
        .unwrap_or_default();
    let refs: Vec<&str> = args.iter().map(|s| s.as_str()).collect();
    println!("replay C06: {} {:?}", name, refs.iter().map(|a| show_bytes(a.as_bytes())).collect::<Vec<_>>());
    let mut acc = Acc::default();
    check_case(&name, &refs, &mut acc, true);
    if acc.viol.is_empty() {
        println!("replay: property holds on this case");
        0
    } else {
        for (sig, (_, ex)) in &acc.viol.by_sig {
            println!("replay: VIOLATION sig={sig}: {}", ex[0].what);
        }
        1
    }
}
