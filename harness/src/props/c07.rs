//! C07 — user-supplied strings can never add a command or change list framing.
//!
//! Bounded-exhaustive enumeration of command names and argument values (all `Argument` kinds,
//! including user-defined renderers emitting arbitrary bytes) and of all sequences of
//! accepted/rejected `add_argument` calls, against a differential oracle.

use std::{borrow::Cow, time::Duration};

use bytes::{BufMut, BytesMut};
use mpd_protocol::{
    command::{Argument, Command},
    CommandList,
};
use rayon::prelude::*;
use serde_json::{json, Value};

use crate::{
    common::*,
    io::{wire_of_command, wire_of_list},
    mpdref::tokenizer::split_lines,
    props::c06::SIGMA,
};

const KEYWORDS: &[&str] = &["command_list_begin", "command_list_ok_begin", "command_list_end"];
const NAME_SIGMA: &[&str] = &[
    "a", "Z", "_", "0", " ", "\t", "\n", "\r", "\0", "\"", "'", "\\", "\u{e9}", "-",
    // non-ASCII characters of Unicode classes a predicate might let through: decimal digit, other
    // number (superscript, fraction, Roman numeral, fullwidth digit), letter-like, spaces
    "\u{663}", "\u{b2}", "\u{bd}", "\u{2167}", "\u{ff11}", "\u{aa}", "\u{a0}", "\u{2028}",
];

/// user-defined renderer: appends exactly these bytes
#[derive(Clone, Debug)]
struct RawArg(Vec<u8>);
impl Argument for RawArg {
    fn render(&self, buf: &mut BytesMut) {
        buf.put_slice(&self.0);
    }
}

/// panics raised inside the command builder (collected, reported as C07/panic)
static PANICS: std::sync::Mutex<Vec<String>> = std::sync::Mutex::new(Vec::new());

#[derive(Clone, Debug)]
enum ArgVal {
    Str(String),
    String(String),
    Cow(String),
    CowOwned(String),
    RefString(String),
    /// a hand-built `mpd_client::tag::Tag::Other` (rendered verbatim by the typed layer)
    Tag(String),
    U8(u8),
    U16(u16),
    U32(u32),
    U64(u64),
    Usize(usize),
    Bool(bool),
    Dur(u64, u32),
    Raw(Vec<u8>),
}

impl ArgVal {
    /// (a panic inside the builder counts as a rejection here and is reported by `apply`'s callers
    /// through `PANICS`)
    fn apply(&self, cmd: &mut Command) -> bool {
        let before = cmd.clone();
        let mut work = cmd.clone();
        match catch(|| {
            let ok = self.apply_inner(&mut work);
            (ok, work)
        }) {
            Ok((ok, work)) => {
                *cmd = work;
                ok
            }
            Err(msg) => {
                *cmd = before;
                PANICS.lock().unwrap().push(format!("{}: {msg}", self.show()));
                false
            }
        }
    }

    fn apply_inner(&self, cmd: &mut Command) -> bool {
        match self {
            ArgVal::Str(s) => cmd.add_argument(s.as_str()).is_ok(),
            ArgVal::String(s) => cmd.add_argument(s.clone()).is_ok(),
            ArgVal::Cow(s) => cmd.add_argument(Cow::Borrowed(s.as_str())).is_ok(),
            ArgVal::CowOwned(s) => cmd.add_argument(Cow::<str>::Owned(s.clone())).is_ok(),
            ArgVal::RefString(s) => cmd.add_argument(s).is_ok(),
            ArgVal::Tag(s) => cmd.add_argument(mpd_client::tag::Tag::Other(s.clone().into())).is_ok(),
            ArgVal::U8(v) => cmd.add_argument(*v).is_ok(),
            ArgVal::U16(v) => cmd.add_argument(*v).is_ok(),
            ArgVal::U32(v) => cmd.add_argument(*v).is_ok(),
            ArgVal::U64(v) => cmd.add_argument(*v).is_ok(),
            ArgVal::Usize(v) => cmd.add_argument(*v).is_ok(),
            ArgVal::Bool(v) => cmd.add_argument(*v).is_ok(),
            ArgVal::Dur(s, n) => cmd.add_argument(Duration::new(*s, *n)).is_ok(),
            ArgVal::Raw(b) => cmd.add_argument(RawArg(b.clone())).is_ok(),
        }
    }
    /// bytes this value renders to contain a line feed (⇒ must be rejected)
    fn has_lf(&self) -> bool {
        match self {
            ArgVal::Str(s) | ArgVal::String(s) | ArgVal::Cow(s) | ArgVal::CowOwned(s) | ArgVal::RefString(s) | ArgVal::Tag(s) => s.contains('\n'),
            ArgVal::Raw(b) => b.contains(&b'\n'),
            _ => false,
        }
    }
    fn to_json(&self) -> Value {
        match self {
            ArgVal::Str(s) => json!({"str": hex(s.as_bytes())}),
            ArgVal::String(s) => json!({"string": hex(s.as_bytes())}),
            ArgVal::Cow(s) => json!({"cow": hex(s.as_bytes())}),
            ArgVal::CowOwned(s) => json!({"cow_owned": hex(s.as_bytes())}),
            ArgVal::RefString(s) => json!({"ref_string": hex(s.as_bytes())}),
            ArgVal::Tag(s) => json!({"tag_other": hex(s.as_bytes())}),
            ArgVal::U8(v) => json!({"u8": v}),
            ArgVal::U16(v) => json!({"u16": v}),
            ArgVal::U32(v) => json!({"u32": v}),
            ArgVal::U64(v) => json!({"u64": v}),
            ArgVal::Usize(v) => json!({"usize": v}),
            ArgVal::Bool(v) => json!({"bool": v}),
            ArgVal::Dur(s, n) => json!({"dur": [s, n]}),
            ArgVal::Raw(b) => json!({"raw": hex(b)}),
        }
    }
    fn from_json(v: &Value) -> Option<ArgVal> {
        let o = v.as_object()?;
        let (k, x) = o.iter().next()?;
        let s = || String::from_utf8_lossy(&unhex(x.as_str().unwrap_or(""))).into_owned();
        Some(match k.as_str() {
            "str" => ArgVal::Str(s()),
            "string" => ArgVal::String(s()),
            "cow" => ArgVal::Cow(s()),
            "cow_owned" => ArgVal::CowOwned(s()),
            "ref_string" => ArgVal::RefString(s()),
            "tag_other" => ArgVal::Tag(s()),
            "u8" => ArgVal::U8(x.as_u64()? as u8),
            "u16" => ArgVal::U16(x.as_u64()? as u16),
            "u32" => ArgVal::U32(x.as_u64()? as u32),
            "u64" => ArgVal::U64(x.as_u64()?),
            "usize" => ArgVal::Usize(x.as_u64()? as usize),
            "bool" => ArgVal::Bool(x.as_bool()?),
            "dur" => ArgVal::Dur(x[0].as_u64()?, x[1].as_u64()? as u32),
            "raw" => ArgVal::Raw(unhex(x.as_str()?)),
            _ => return None,
        })
    }
    fn show(&self) -> String {
        match self {
            ArgVal::Str(s) | ArgVal::String(s) | ArgVal::Cow(s) | ArgVal::CowOwned(s) | ArgVal::RefString(s) | ArgVal::Tag(s) => format!("{:?}", show_bytes(s.as_bytes())),
            ArgVal::Raw(b) => format!("Raw({:?})", show_bytes(b)),
            other => format!("{other:?}"),
        }
    }
}

#[derive(Default)]
struct Acc {
    evaluations: u64,
    nontrivial: u64,
    transitions: u64,
    accepted_names: u64,
    rejected_names: u64,
    accepted_args: u64,
    rejected_args: u64,
    viol: Violations,
}

impl Acc {
    fn merge(mut self, o: Acc) -> Acc {
        self.evaluations += o.evaluations;
        self.nontrivial += o.nontrivial;
        self.transitions += o.transitions;
        self.accepted_names += o.accepted_names;
        self.rejected_names += o.rejected_names;
        self.accepted_args += o.accepted_args;
        self.rejected_args += o.rejected_args;
        self.viol.merge(o.viol);
        self
    }
}

fn name_valid_by_property(name: &str) -> Result<(), &'static str> {
    if name.is_empty() {
        return Err("empty");
    }
    if !name.bytes().all(|b| b.is_ascii_alphanumeric() || b == b'_') {
        return Err("charset");
    }
    if KEYWORDS.contains(&name) {
        return Err("keyword");
    }
    Ok(())
}

fn long_lengths(tier: Tier) -> Vec<usize> {
    let mut v = vec![31, 32, 33, 63, 64, 65, 100, 127, 128, 129, 130, 200, 255, 256, 257, 511, 512, 513, 1000, 1023, 1024, 1025, 4095, 4096, 4097, 5000];
    if tier == Tier::Thorough {
        v.extend([8191, 8192, 8193, 16384, 65535, 65536, 65537, 70000, 1 << 20]);
    }
    v
}

/// Names and arguments handed over in a *reused buffer* (same address, same length, other content), as a
/// line-oriented application does: the verdict on each must be the verdict it gets on its own.
fn check_buffer_reuse(tier: Tier, acc: &mut Acc) {
    let mut names = strings_over(NAME_SIGMA, 2);
    names.extend(keyword_neighbours().into_iter().filter(|n| n.len() <= 24).take(tier.pick(60, 400)));
    names.extend(["status", "st\ntus", "sta us", "play", "pl\0y", "command_list_end", "command_lisp_end", "command_list_enD"].map(String::from));
    // each name on its own: a separate allocation per name (kept alive, so no two share an address)
    let copies: Vec<String> = names.to_vec();
    let fresh: Vec<bool> = copies.iter().map(|n| catch(|| Command::build(n.as_str()).is_ok()).unwrap_or(false)).collect();
    let mut buf = String::with_capacity(64);
    for (i, a) in names.iter().enumerate() {
        for (j, b) in names.iter().enumerate() {
            if i == j || a.len() != b.len() && (i + j) % 7 != 0 {
                continue; // every same-length pair, one in seven of the others
            }
            acc.evaluations += 1;
            acc.transitions += 2;
            acc.nontrivial += 1;
            buf.clear();
            buf.push_str(a);
            let first = catch(|| Command::build(buf.as_str()).is_ok()).unwrap_or(false);
            buf.clear();
            buf.push_str(b);
            let second = catch(|| Command::build(buf.as_str()).is_ok()).unwrap_or(false);
            for (n, accepted) in [(a, first), (b, second)] {
                if let (Err(why), true) = (name_valid_by_property(n), accepted) {
                    acc.viol.push(Violation::new(
                        format!("C07/bad-name-accepted-{why}"),
                        format!("Command::build accepts the name {:?} ({why}) when it is handed over in a buffer that held {:?} before", show_bytes(n.as_bytes()), show_bytes(a.as_bytes())),
                        json!({"kind": "name-reuse", "first_hex": hex(a.as_bytes()), "second_hex": hex(b.as_bytes())}),
                    ));
                }
            }
            if first != fresh[i] || second != fresh[j] {
                acc.viol.push(Violation::new(
                    "C07/name-verdict-history-dependent",
                    format!("build({:?}) then build({:?}) through one reused buffer gives accepted = {first}, {second}; each on its own gives {}, {}", show_bytes(a.as_bytes()), show_bytes(b.as_bytes()), fresh[i], fresh[j]),
                    json!({"kind": "name-reuse", "first_hex": hex(a.as_bytes()), "second_hex": hex(b.as_bytes())}),
                ));
            }
        }
    }
    let args = strings_over(SIGMA, 2);
    let fresh: Vec<bool> = args.iter().map(|a| ArgVal::String(a.clone()).apply(&mut bases().swap_remove(0))).collect();
    for (i, a) in args.iter().enumerate() {
        for (j, b) in args.iter().enumerate() {
            if i == j || a.len() != b.len() {
                continue;
            }
            acc.evaluations += 1;
            acc.transitions += 2;
            acc.nontrivial += 1;
            buf.clear();
            buf.push_str(a);
            let mut cmd = bases().swap_remove(0);
            let first = catch(|| cmd.add_argument(buf.as_str()).is_ok()).unwrap_or(false);
            buf.clear();
            buf.push_str(b);
            let mut cmd2 = bases().swap_remove(0);
            let second = catch(|| cmd2.add_argument(buf.as_str()).is_ok()).unwrap_or(false);
            if first != fresh[i] || second != fresh[j] {
                acc.viol.push(Violation::new(
                    "C07/argument-verdict-history-dependent",
                    format!("add_argument({:?}) then add_argument({:?}) through one reused buffer gives accepted = {first}, {second}; each on its own gives {}, {}", show_bytes(a.as_bytes()), show_bytes(b.as_bytes()), fresh[i], fresh[j]),
                    json!({"kind": "arg-reuse", "first_hex": hex(a.as_bytes()), "second_hex": hex(b.as_bytes())}),
                ));
            }
        }
    }
}

pub fn failed_send_violations(prefix: &str) -> Violations {
    let mut acc = Acc::default();
    check_failed_sends(&mut acc, prefix);
    acc.viol
}

fn check_failed_sends(acc_fail: &mut Acc, prefix: &str) {
    {
        use crate::io::{wire_after_failed_send, WireItem};
        let one = || WireItem::Command(Command::new("delete").argument("3"));
        let list = || WireItem::List(CommandList::new(Command::new("password").argument("hunter2")).command(Command::new("status")));
        for fail_after in [0usize, 1, 5, 9, 20] {
            for (fname, first) in [("a command", one as fn() -> WireItem), ("a list", list as fn() -> WireItem)] {
                for (sname, second, want) in [
                    ("a command", WireItem::Command(Command::new("ping")), b"ping\n".to_vec()),
                    ("a list", WireItem::List(CommandList::new(Command::new("a")).command(Command::new("b"))), b"command_list_ok_begin\na\nb\ncommand_list_end\n".to_vec()),
                ] {
                    acc_fail.evaluations += 1;
                    acc_fail.nontrivial += 1;
                    acc_fail.transitions += 2;
                    match catch(|| wire_after_failed_send(first(), fail_after, second)) {
                        Ok(Ok(w)) if w == want => {}
                        Ok(Err(e)) if e.contains("succeeded") && fail_after >= 9 => {} // the whole first request fitted before the break
                        other => acc_fail.viol.push(Violation::new(
                            format!("{prefix}/bytes-left-behind-by-a-failed-send"),
                            format!("after {fname} failed to be sent (transport broke after {fail_after} bytes), {sname} sent on a new connection reaches its transport as {:?}, expected {:?}", other.map(|r| r.map(|w| show_bytes(&w))), show_bytes(&want)),
                            json!({"kind": "failed-send", "fail_after": fail_after}),
                        )),
                    }
                }
            }
        }
    }
}

fn single_line(w: &[u8]) -> bool {
    w.last() == Some(&b'\n') && w.iter().filter(|&&b| b == b'\n').count() == 1
}

fn check_name(name: &str, acc: &mut Acc, verbose: bool) {
    acc.evaluations += 1;
    acc.transitions += 1;
    let valid = name_valid_by_property(name);
    if valid.is_err() {
        acc.nontrivial += 1;
    }
    match Command::build(name) {
        Err(_) => {
            acc.rejected_names += 1;
            if verbose {
                println!("  build({:?}) rejected", show_bytes(name.as_bytes()));
            }
        }
        Ok(cmd) => {
            acc.accepted_names += 1;
            let w = wire_of_command(cmd);
            if verbose {
                println!("  build({:?}) accepted, wire {:?}", show_bytes(name.as_bytes()), show_bytes(&w));
            }
            if let Err(why) = valid {
                acc.viol.push(Violation::new(
                    format!("C07/bad-name-accepted-{why}"),
                    format!("Command::build accepts the name {:?} ({why})", show_bytes(name.as_bytes())),
                    json!({"kind": "name", "name_hex": hex(name.as_bytes())}),
                ));
            }
            let mut want = name.as_bytes().to_vec();
            want.push(b'\n');
            if w != want {
                acc.viol.push(Violation::new(
                    "C07/name-not-sent-verbatim",
                    format!("name {:?} is sent as {:?}", show_bytes(name.as_bytes()), show_bytes(&w)),
                    json!({"kind": "name", "name_hex": hex(name.as_bytes())}),
                ));
            }
        }
    }
}

fn keyword_neighbours() -> Vec<String> {
    let mut out: Vec<String> = Vec::new();
    for kw in KEYWORDS {
        out.push(kw.to_string());
        out.push(kw.to_uppercase());
        for ext in ["x", "_", "0", " ", "\n"] {
            out.push(format!("{kw}{ext}"));
            out.push(format!("{ext}{kw}"));
        }
        for p in 1..kw.len() {
            out.push(kw[..p].to_string());
        }
        let chars: Vec<char> = kw.chars().collect();
        for i in 0..chars.len() {
            let mut d = chars.clone();
            d.remove(i);
            out.push(d.iter().collect());
            for sub in ['x', '_', 'A', ' '] {
                let mut s = chars.clone();
                s[i] = sub;
                out.push(s.iter().collect());
            }
        }
        for i in 0..=chars.len() {
            for ins in ['x', '_', ' ', '\n'] {
                let mut s = chars.clone();
                s.insert(i, ins);
                out.push(s.iter().collect());
            }
        }
    }
    out.sort();
    out.dedup();
    out
}

fn bases() -> Vec<Command> {
    vec![Command::new("cmd"), Command::new("cmd").argument("x y").argument(7u32)]
}

fn check_arg(base_idx: usize, val: &ArgVal, acc: &mut Acc, verbose: bool) {
    acc.evaluations += 1;
    acc.transitions += 1;
    if val.has_lf() || matches!(val, ArgVal::Raw(_)) {
        acc.nontrivial += 1;
    }
    let base = bases().swap_remove(base_idx);
    let mut cmd = base.clone();
    let ok = val.apply(&mut cmd);
    let case = json!({"kind": "arg", "base": base_idx, "value": val.to_json()});
    if ok {
        acc.accepted_args += 1;
        let w = wire_of_command(cmd.clone());
        if verbose {
            println!("  accepted; wire {:?}", show_bytes(&w));
        }
        if val.has_lf() {
            acc.viol.push(Violation::new("C07/linefeed-accepted", format!("argument {} containing LF is accepted; wire {:?}", val.show(), show_bytes(&w)), case.clone()));
        }
        if !single_line(&w) {
            acc.viol.push(Violation::new("C07/extra-line", format!("argument {} makes the command occupy {} lines: {:?}", val.show(), w.iter().filter(|&&b| b == b'\n').count(), show_bytes(&w)), case.clone()));
        }
        let before = wire_of_command(base);
        if !w.starts_with(&before[..before.len() - 1]) {
            acc.viol.push(Violation::new("C07/earlier-bytes-changed", format!("adding {} changed the part of the command before it", val.show()), case));
        }
    } else {
        acc.rejected_args += 1;
        if verbose {
            println!("  rejected; command now {:?}", show_bytes(&wire_of_command(cmd.clone())));
        }
        if cmd != base || wire_of_command(cmd.clone()) != wire_of_command(base.clone()) {
            acc.viol.push(Violation::new(
                "C07/rollback-broken",
                format!("rejected argument {} left the command as {:?} instead of {:?}", val.show(), show_bytes(&wire_of_command(cmd)), show_bytes(&wire_of_command(base))),
                case,
            ));
        }
    }
}

fn seq_menu() -> Vec<ArgVal> {
    vec![
        ArgVal::Str("a".into()),
        ArgVal::String("b c".into()),
        ArgVal::U32(7),
        ArgVal::Bool(true),
        ArgVal::Str("x\ny".into()),
        ArgVal::Cow("\n".into()),
        ArgVal::Raw(b"q\n".to_vec()),
        ArgVal::String("tail\n".into()),
        // renderings that are empty or end in a blank, and one whose FIRST byte is the line feed:
        // where an argument begins must not depend on what the previous one left behind
        ArgVal::Raw(b"".to_vec()),
        ArgVal::Raw(b"a ".to_vec()),
        ArgVal::Raw(b"\nkill".to_vec()),
        ArgVal::Tag("Artist\nkill".into()),
    ]
}

fn check_sequence(seq: &[usize], acc: &mut Acc, verbose: bool) {
    let menu = seq_menu();
    acc.evaluations += 1;
    let mut cmd = Command::new("cmd");
    let mut accepted: Vec<usize> = Vec::new();
    let mut rejected_any = false;
    let case = json!({"kind": "sequence", "seq": seq});
    for &i in seq {
        acc.transitions += 1;
        let before = cmd.clone();
        let ok = menu[i].apply(&mut cmd);
        if verbose {
            println!("  add {} -> {}; command {:?}", menu[i].show(), if ok { "accepted" } else { "rejected" }, show_bytes(&wire_of_command(cmd.clone())));
        }
        if ok {
            accepted.push(i);
            if menu[i].has_lf() {
                acc.viol.push(Violation::new("C07/linefeed-accepted", format!("in sequence {seq:?}: {} accepted", menu[i].show()), case.clone()));
            }
        } else {
            rejected_any = true;
            if cmd != before {
                acc.viol.push(Violation::new("C07/rollback-broken", format!("in sequence {seq:?}: rejected {} changed the command", menu[i].show()), case.clone()));
            }
        }
    }
    if rejected_any {
        acc.nontrivial += 1;
    }
    // differential: the same command as from the accepted calls alone
    let mut clean = Command::new("cmd");
    for &i in &accepted {
        menu[i].apply(&mut clean);
    }
    let w = wire_of_command(cmd.clone());
    if cmd != clean || w != wire_of_command(clean.clone()) {
        acc.viol.push(Violation::new(
            "C07/history-dependent",
            format!("sequence {seq:?} gives {:?} but the accepted calls alone give {:?}", show_bytes(&w), show_bytes(&wire_of_command(clean))),
            case.clone(),
        ));
    }
    if !single_line(&w) {
        acc.viol.push(Violation::new("C07/extra-line", format!("sequence {seq:?} renders to {:?}", show_bytes(&w)), case.clone()));
    }
    // list framing: N commands -> N + 2 lines
    for n in [2usize, 3] {
        let mut list = CommandList::new(cmd.clone());
        for _ in 1..n {
            list.add(cmd.clone());
        }
        let lw = wire_of_list(list);
        let (lines, rest) = split_lines(&lw);
        acc.transitions += 1;
        let ok = rest.is_empty() && lines.len() == n + 2 && lines[0] == b"command_list_ok_begin" && lines[n + 1] == b"command_list_end" && lines[1..=n].iter().all(|l| *l == &w[..w.len() - 1]);
        if !ok {
            acc.viol.push(Violation::new("C07/list-framing", format!("a list of {n} commands renders to {} lines: {:?}", lines.len(), show_bytes(&lw)), case.clone()));
        }
    }
}

pub fn run(tier: Tier) -> i32 {
    let mut ctx = Ctx::new("C07", tier, "model_checking");
    ctx.assume("MPD's command-word alphabet is letters, digits and underscore; the list keywords are command_list_begin, command_list_ok_begin, command_list_end (exact, case-sensitive)");
    ctx.assume("user-defined Argument renderers only append bytes to the buffer they are handed");

    // names
    let mut names = strings_over(NAME_SIGMA, tier.pick(3, 5));
    names.extend(keyword_neighbours());
    let acc_names = names
        .par_chunks(1024)
        .map(|chunk| {
            let mut acc = Acc::default();
            for n in chunk {
                check_name(n, &mut acc, false);
            }
            acc
        })
        .reduce(Acc::default, Acc::merge);

    // arguments
    let strs = strings_over(SIGMA, tier.pick(4, 6));
    let mut vals: Vec<ArgVal> = Vec::new();
    for s in &strs {
        vals.push(ArgVal::Str(s.clone()));
        vals.push(ArgVal::String(s.clone()));
        vals.push(ArgVal::Cow(s.clone()));
        vals.push(ArgVal::CowOwned(s.clone()));
        vals.push(ArgVal::RefString(s.clone()));
        if s.chars().count() <= 3 {
            vals.push(ArgVal::Tag(s.clone()));
        }
    }
    for v in [0u64, 1, 9, 10, 255, 256, 65535, 65536, u32::MAX as u64, u64::MAX - 1, u64::MAX] {
        vals.push(ArgVal::U8(v as u8));
        vals.push(ArgVal::U16(v as u16));
        vals.push(ArgVal::U32(v as u32));
        vals.push(ArgVal::U64(v));
        vals.push(ArgVal::Usize(v as usize));
    }
    vals.push(ArgVal::Bool(true));
    vals.push(ArgVal::Bool(false));
    for (s, n) in [(0u64, 0u32), (0, 1), (0, 499_999), (0, 500_000), (0, 999_999_999), (1, 0), (2, 345_000_000), (1 << 31, 0), (u64::MAX, 999_999_999)] {
        vals.push(ArgVal::Dur(s, n));
    }
    for b in bytes_over(&[b'a', b'\n', b'\r', 0xff, b' ', b'"'], tier.pick(4, 7)) {
        vals.push(ArgVal::Raw(b));
    }
    // long values (round 6: an error path that clips what it keeps of a rejected argument): lengths
    // around powers of two and buffer sizes, a forbidden byte at the edges and in the middle
    for len in long_lengths(tier) {
        for fill in ["a", " ", "\"", "\u{e9}"] {
            let body: String = fill.repeat(len / fill.len());
            let n = body.chars().count();
            vals.push(ArgVal::Str(body.clone()));
            for bad in ['\n', '\0'] {
                for at in [0, 1, n / 2, n.saturating_sub(2), n.saturating_sub(1), n] {
                    let mut t: String = body.chars().take(at).collect();
                    t.push(bad);
                    t.extend(body.chars().skip(at));
                    vals.push(ArgVal::Str(t.clone()));
                    vals.push(ArgVal::String(t.clone()));
                    if fill == "a" {
                        vals.push(ArgVal::Raw(t.into_bytes()));
                    }
                }
            }
        }
    }
    let acc_args = vals
        .par_chunks(512)
        .map(|chunk| {
            let mut acc = Acc::default();
            for v in chunk {
                for base in 0..2 {
                    check_arg(base, v, &mut acc, false);
                }
            }
            acc
        })
        .reduce(Acc::default, Acc::merge);

    // sequences of add_argument calls
    let depth = tier.pick(4, 6);
    let mut seqs: Vec<Vec<usize>> = vec![vec![]];
    let mut layer: Vec<Vec<usize>> = vec![vec![]];
    for _ in 0..depth {
        let mut next = Vec::new();
        for s in &layer {
            for i in 0..seq_menu().len() {
                let mut t = s.clone();
                t.push(i);
                next.push(t);
            }
        }
        seqs.extend(next.iter().cloned());
        layer = next;
    }
    let acc_seq = seqs
        .par_chunks(512)
        .map(|chunk| {
            let mut acc = Acc::default();
            for s in chunk {
                check_sequence(s, &mut acc, false);
            }
            acc
        })
        .reduce(Acc::default, Acc::merge);

    // (round 7) a send that failed must leave nothing behind that a later send - on any connection of the thread -
    // would put on the wire: one command is one line, a list of N is N + 2 lines, and nothing in front of them
    let mut acc_fail = Acc::default();
    check_failed_sends(&mut acc_fail, "C07");
    // ... and a transport that takes a few bytes per write still gets whole lines (the asynchronous connection is the
    // path every Client request takes)
    for (k, arg) in ["x", "a b", "0123456789012345678901234567890123456789"].into_iter().enumerate() {
        use crate::io::{wire_async_limited, WireItem};
        let cmd = Command::new("add").argument(arg);
        let list = CommandList::new(cmd.clone()).command(Command::new("ping"));
        for limit in [1usize, 7, 16] {
            acc_fail.evaluations += 2;
            acc_fail.transitions += 2;
            if wire_async_limited(WireItem::Command(cmd.clone()), limit).ok() != Some(wire_of_command(cmd.clone())) || wire_async_limited(WireItem::List(list.clone()), limit).ok() != Some(wire_of_list(list.clone())) {
                acc_fail.viol.push(Violation::new("C07/line-cut-short-by-a-short-write", format!("over a transport that takes {limit} bytes per write, `add <argument {k}>` / the list [add, ping] does not arrive as the whole line(s)"), json!({"kind": "failed-send", "fail_after": limit})));
            }
        }
    }
    let mut acc = acc_names.merge(acc_args).merge(acc_seq).merge(acc_fail);
    check_buffer_reuse(tier, &mut acc);
    for p in PANICS.lock().unwrap().drain(..).take(50) {
        acc.viol.push(Violation::new("C07/panic", format!("the command builder panicked on an argument: {p}"), json!({"kind": "panic", "what": p})));
    }
    if acc.accepted_names == 0 || acc.rejected_names == 0 || acc.accepted_args == 0 || acc.rejected_args == 0 {
        machinery_error("C07: vacuous enumeration (no accepted or no rejected names/arguments)");
    }
    let mut cov = Coverage::default();
    cov.evaluations = acc.evaluations;
    cov.distinct_nontrivial = acc.nontrivial;
    cov.rule = format!(
        "names: every string of length <= {} over 22 class representatives (incl. 8 non-ASCII numeric / letter-like / space characters) plus every string within edit distance 1 of / prefix / extension of the three list keywords ({} names); arguments: every string of length <= {} over 12 classes through &str/String/Cow borrowed and owned/&String, integer/bool/Duration values, user-defined renderers for every byte string of length <= {} over {{a, LF, CR, 0xFF, space, quote}} ({} values x 2 base commands); sequences: every sequence of <= {} add_argument calls over a menu of 12 values (accepted, rejected, empty / blank-terminated renderings, a line feed as first byte, a hand-built tag) ({} sequences); non-trivial = invalid names, values containing LF or rendered by a user-defined renderer, sequences containing a rejected call; plus values of 31..5000 (thorough: ..2^20) bytes over 4 fills with LF / NUL at 6 positions, and ordered pairs of names / arguments handed over in one reused buffer",
        tier.pick(3, 5),
        names.len(),
        tier.pick(4, 6),
        tier.pick(4, 7),
        vals.len(),
        depth,
        seqs.len()
    );
    cov.states = acc.evaluations;
    cov.transitions = acc.transitions;
    cov.traces = acc.evaluations;
    cov.exhaustive = true;
    cov.set("accepted_names", json!(acc.accepted_names));
    cov.set("rejected_names", json!(acc.rejected_names));
    cov.set("accepted_arguments", json!(acc.accepted_args));
    cov.set("rejected_arguments", json!(acc.rejected_args));
    cov.set("state_meaning", json!("states = distinct inputs (name / (base, argument value) / call sequence); transitions = build / add_argument / render operations executed on the real code"));
    cov.samples = vec![
        json!({"name": "command_list_en", "accepted": Command::build("command_list_en").is_ok()}),
        json!({"sequence": ["a", "x\\ny (rejected)", "b c", "Raw(q\\n) (rejected)"], "result": show_bytes(&wire_of_command(Command::new("cmd").argument("a").argument("b c")))}),
        json!({"argument": "Raw(\"a\\nb\")", "accepted": Command::new("cmd").add_argument(RawArg(b"a\nb".to_vec())).is_ok()}),
    ];
    finish(&ctx, cov, acc.viol)
}

pub fn replay(case: &Value) -> i32 {
    let mut acc = Acc::default();
    match case["kind"].as_str() {
        Some("name") => {
            let name = String::from_utf8_lossy(&unhex(case["name_hex"].as_str().unwrap_or(""))).into_owned();
            println!("replay C07: name {:?}", show_bytes(name.as_bytes()));
            check_name(&name, &mut acc, true);
        }
        Some("arg") => {
            let Some(val) = ArgVal::from_json(&case["value"]) else { return 2 };
            let base = case["base"].as_u64().unwrap_or(0) as usize;
            println!("replay C07: base command #{base}, argument {}", val.show());
            check_arg(base.min(1), &val, &mut acc, true);
        }
        Some("sequence") => {
            let seq: Vec<usize> = case["seq"].as_array().map(|a| a.iter().filter_map(|x| x.as_u64().map(|v| (v as usize).min(seq_menu().len() - 1))).collect()).unwrap_or_default();
            println!("replay C07: add_argument sequence {seq:?}");
            check_sequence(&seq, &mut acc, true);
        }
        Some("failed-send") => {
            println!("replay C07: a failed send followed by sends on a new connection (5 break points x 2 x 2 cases)");
            check_failed_sends(&mut acc, "C07");
        }
        Some(k @ ("name-reuse" | "arg-reuse")) => {
            let a = String::from_utf8_lossy(&unhex(case["first_hex"].as_str().unwrap_or(""))).into_owned();
            let b = String::from_utf8_lossy(&unhex(case["second_hex"].as_str().unwrap_or(""))).into_owned();
            let verdict = |s: &str| -> bool {
                if k == "name-reuse" {
                    catch(|| Command::build(s).is_ok()).unwrap_or(false)
                } else {
                    let mut c = bases().swap_remove(0);
                    catch(|| c.add_argument(s).is_ok()).unwrap_or(false)
                }
            };
            let (fa, fb) = (verdict(&a.clone()), verdict(&b.clone()));
            let mut buf = String::with_capacity(64);
            buf.push_str(&a);
            let first = verdict(buf.as_str());
            buf.clear();
            buf.push_str(&b);
            let second = verdict(buf.as_str());
            println!("replay C07 ({k}): {:?} then {:?} through one reused buffer: accepted = {first}, {second}; each on its own: {fa}, {fb}", show_bytes(a.as_bytes()), show_bytes(b.as_bytes()));
            if k == "name-reuse" && (first && name_valid_by_property(&a).is_err() || second && name_valid_by_property(&b).is_err()) {
                acc.viol.push(Violation::new("C07/bad-name-accepted-via-reused-buffer", "a name outside the command-word alphabet is accepted".to_string(), case.clone()));
            }
            if first != fa || second != fb {
                acc.viol.push(Violation::new(if k == "name-reuse" { "C07/name-verdict-history-dependent" } else { "C07/argument-verdict-history-dependent" }, "the verdict depends on what the buffer held before".to_string(), case.clone()));
            }
        }
        _ => return 2,
    }
    if acc.viol.is_empty() {
        println!("replay: property holds on this case");
        0
    } else {
        for (sig, (_, ex)) in &acc.viol.by_sig {
            println!("replay: VIOLATION sig={sig}: {}", ex[0].what);
        }
        1
    }
}
