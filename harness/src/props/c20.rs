//! C20 — tags and subsystems compare, hash and parse by protocol name.
//!
//! The domain is finite once the name variants are fixed; it is enumerated completely: all
//! ordered pairs of tag / subsystem values (every named variant against catch-all values holding
//! its name in several letter cases), all candidate tag strings, and every subsystem name sent
//! through the real client as an idle notification.

use std::{
    cmp::Ordering,
    collections::{hash_map::DefaultHasher, BTreeMap, HashMap, HashSet},
    hash::{Hash, Hasher},
};

use mpd_client::{client::Subsystem, tag::Tag};
use serde_json::{json, Value};

use crate::{
    common::*,
    engines::loopmc::{run_once, CallerProg, NameChooser, Scenario},
};

fn named_tags() -> Vec<(Tag, &'static str)> {
    vec![
        (Tag::Album, "Album"),
        (Tag::AlbumArtist, "AlbumArtist"),
        (Tag::AlbumArtistSort, "AlbumArtistSort"),
        (Tag::AlbumSort, "AlbumSort"),
        (Tag::Artist, "Artist"),
        (Tag::ArtistSort, "ArtistSort"),
        (Tag::Comment, "Comment"),
        (Tag::Composer, "Composer"),
        (Tag::ComposerSort, "ComposerSort"),
        (Tag::Conductor, "Conductor"),
        (Tag::Date, "Date"),
        (Tag::Disc, "Disc"),
        (Tag::Ensemble, "Ensemble"),
        (Tag::Genre, "Genre"),
        (Tag::Grouping, "Grouping"),
        (Tag::Label, "Label"),
        (Tag::Location, "Location"),
        (Tag::Movement, "Movement"),
        (Tag::MovementNumber, "MovementNumber"),
        (Tag::MusicBrainzArtistId, "MUSICBRAINZ_ARTISTID"),
        (Tag::MusicBrainzRecordingId, "MUSICBRAINZ_TRACKID"),
        (Tag::MusicBrainzReleaseArtistId, "MUSICBRAINZ_ALBUMARTISTID"),
        (Tag::MusicBrainzReleaseId, "MUSICBRAINZ_ALBUMID"),
        (Tag::MusicBrainzTrackId, "MUSICBRAINZ_RELEASETRACKID"),
        (Tag::MusicBrainzWorkId, "MUSICBRAINZ_WORKID"),
        (Tag::Name, "Name"),
        (Tag::OriginalDate, "OriginalDate"),
        (Tag::Performer, "Performer"),
        (Tag::Title, "Title"),
        (Tag::Track, "Track"),
        (Tag::Work, "Work"),
    ]
}

fn named_subsystems() -> Vec<(Subsystem, &'static str)> {
    vec![
        (Subsystem::Database, "database"),
        (Subsystem::Message, "message"),
        (Subsystem::Mixer, "mixer"),
        (Subsystem::Options, "options"),
        (Subsystem::Output, "output"),
        (Subsystem::Partition, "partition"),
        (Subsystem::Player, "player"),
        (Subsystem::Queue, "playlist"),
        (Subsystem::Sticker, "sticker"),
        (Subsystem::StoredPlaylist, "stored_playlist"),
        (Subsystem::Subscription, "subscription"),
        (Subsystem::Update, "update"),
        (Subsystem::Neighbor, "neighbor"),
        (Subsystem::Mount, "mount"),
    ]
}

fn flip_first(s: &str) -> String {
    let mut c: Vec<char> = s.chars().collect();
    if let Some(f) = c.first_mut() {
        *f = if f.is_ascii_uppercase() { f.to_ascii_lowercase() } else { f.to_ascii_uppercase() };
    }
    c.into_iter().collect()
}

fn case_variants(s: &str) -> Vec<String> {
    let mut v = vec![s.to_string(), s.to_lowercase(), s.to_uppercase(), flip_first(s)];
    v.sort();
    v.dedup();
    v
}

/// protocol name of a tag: its public `Argument` rendering as the server reads it
fn tag_name(t: &Tag) -> String {
    argument_as_the_server_reads_it(t)
}

fn h1<T: Hash>(t: &T) -> u64 {
    let mut h = DefaultHasher::new();
    t.hash(&mut h);
    h.finish()
}

#[derive(Default)]
struct Acc {
    evaluations: u64,
    nontrivial: u64,
    transitions: u64,
    viol: Violations,
}

fn v(acc: &mut Acc, sig: &str, what: String, case: Value) {
    acc.viol.push(Violation::new(format!("C20/{sig}"), what, case));
}

fn check_tag_tables(acc: &mut Acc) {
    // the name table itself (protocol reference: tag names as MPD prints them)
    for (t, n) in named_tags() {
        acc.evaluations += 1;
        acc.transitions += 1;
        if tag_name(&t) != n {
            v(acc, "tag-name-table", format!("{t:?} renders as {:?}, protocol name is {n:?}", tag_name(&t)), json!({"kind": "tag-name", "name": n}));
        }
        if t != n {
            v(acc, "tag-eq-str", format!("{t:?} != {n:?} (PartialEq<&str>)"), json!({"kind": "tag-name", "name": n}));
        }
    }
}

fn check_tag_pairs(acc: &mut Acc) {
    let mut domain: Vec<Tag> = named_tags().into_iter().map(|(t, _)| t).collect();
    for (_, n) in named_tags() {
        for c in case_variants(n) {
            domain.push(Tag::Other(c.into_boxed_str()));
        }
    }
    domain.push(Tag::any());
    domain.push(Tag::Other("x".into()));
    let names: Vec<String> = domain.iter().map(tag_name).collect();
    for (i, a) in domain.iter().enumerate() {
        for (j, b) in domain.iter().enumerate() {
            acc.evaluations += 1;
            acc.transitions += 3;
            let same = names[i] == names[j];
            if same && i != j {
                acc.nontrivial += 1;
            }
            let case = json!({"kind": "tag-pair", "a": format!("{a:?}"), "b": format!("{b:?}")});
            if (a == b) != same {
                v(acc, "tag-eq", format!("{a:?} == {b:?} is {} but names are {:?} / {:?}", a == b, names[i], names[j]), case.clone());
            }
            // (round 7) comparison with a string is comparison with the protocol name, as for two tags
            if (*a == names[j].as_str()) != same {
                v(acc, "tag-eq-str", format!("{a:?} == {:?} (a &str) is {} but {a:?} == {b:?} must be {same}", names[j], *a == names[j].as_str()), case.clone());
            }
            let want: Ordering = names[i].cmp(&names[j]);
            if a.cmp(b) != want || a.partial_cmp(b) != Some(want) {
                v(acc, "tag-ord", format!("{a:?}.cmp({b:?}) = {:?}, names compare {want:?}", a.cmp(b)), case.clone());
            }
            if same {
                if h1(a) != h1(b) || hash64(a) != hash64(b) {
                    v(acc, "tag-hash", format!("{a:?} and {b:?} are equal by name but hash differently"), case.clone());
                }
                let mut hm = HashMap::new();
                hm.insert(a.clone(), 1);
                let mut bm = BTreeMap::new();
                bm.insert(a.clone(), 1);
                let mut hs = HashSet::new();
                hs.insert(a.clone());
                if hm.get(b) != Some(&1) || bm.get(b) != Some(&1) || !hs.contains(b) || hs.insert(b.clone()) {
                    v(acc, "tag-map-key", format!("{b:?} does not find the entry stored under {a:?}"), case);
                }
            } else {
                let mut hm = HashMap::new();
                hm.insert(a.clone(), 1);
                let mut bm = BTreeMap::new();
                bm.insert(a.clone(), 1);
                if hm.contains_key(b) || bm.contains_key(b) {
                    v(acc, "tag-map-key", format!("{b:?} finds the entry stored under the differently named {a:?}"), case);
                }
            }
        }
    }
}

fn check_tag_parse(acc: &mut Acc) {
    let mut cands: Vec<String> = Vec::new();
    for (_, n) in named_tags() {
        cands.extend(case_variants(n));
        cands.push(format!("{n}x"));
        cands.push(n[..n.len() - 1].to_string());
        cands.push(format!("{n} "));
    }
    cands.extend(["any", "x", "my-tag", "my_tag", "Last-Modified"].map(String::from));
    // (round 7) long candidates: every known name with tails of 1..=20 letters (in the name's own and in
    // lower case), plain names of 20..=70 and 300 letters (a lookup buffer sized for the longest known name)
    for (_, n) in named_tags() {
        for k in [1usize, 2, 3, 5, 8, 13, 20] {
            cands.push(format!("{n}{}", "x".repeat(k)));
            cands.push(format!("{}{}", n.to_lowercase(), "_".repeat(k)));
        }
    }
    for n in (20usize..=70).chain([127, 128, 129, 300]) {
        cands.push("q".repeat(n));
        cands.push(format!("MUSICBRAINZ_{}", "Z".repeat(n)));
    }
    // names that are special somewhere else in the protocol or the library, in every letter case
    for special in ["any", "file", "base", "modified-since", "added-since", "AudioFormat", "prio", "window", "sort", "group"] {
        cands.extend(case_variants(special));
        cands.push(special.to_uppercase());
    }
    // trailing / leading characters the protocol cannot carry
    for n in ["Artist", "Mood", "x"] {
        for junk in ["\n", "\r\n", "\t", " ", "\u{3000}", "\u{a0}", "\0", ":"] {
            cands.push(format!("{n}{junk}"));
            cands.push(format!("{junk}{n}"));
        }
    }
    // known names with one letter replaced by a non-ASCII character, among them the ones Unicode
    // case mapping folds onto ASCII letters (KELVIN SIGN -> k, LONG S -> S, dotless / dotted I):
    // a lookup that lower- or upper-cases before it validates would take them for the known name
    for (_, n) in named_tags() {
        for (pos, _) in n.char_indices() {
            for sub in ["\u{212a}", "\u{17f}", "\u{131}", "\u{130}", "\u{212b}", "\u{ff21}", "\u{e9}"] {
                let mut c = String::with_capacity(n.len() + 3);
                c.push_str(&n[..pos]);
                c.push_str(sub);
                c.push_str(&n[pos + 1..]);
                cands.push(c.clone());
                cands.push(c.to_lowercase());
            }
        }
    }
    cands.extend(strings_over(&["a", "Z", "_", "-", "0", " ", ":", "\u{e9}", "\n"], 2));
    cands.sort();
    cands.dedup();
    for s in &cands {
        acc.evaluations += 1;
        acc.transitions += 1;
        let valid = !s.is_empty() && s.bytes().all(|b| b.is_ascii_alphabetic() || b == b'_' || b == b'-');
        if !valid {
            acc.nontrivial += 1;
        }
        let case = json!({"kind": "tag-parse", "input_hex": hex(s.as_bytes())});
        match Tag::try_from(s.as_str()) {
            Err(_) => {
                if valid {
                    v(acc, "tag-parse-rejects-valid", format!("Tag::try_from({:?}) is rejected", show_bytes(s.as_bytes())), case);
                }
            }
            Ok(t) => {
                if !valid {
                    v(acc, "tag-parse-accepts-invalid", format!("Tag::try_from({:?}) is accepted as {t:?}", show_bytes(s.as_bytes())), case);
                    continue;
                }
                let known = named_tags().into_iter().find(|(_, n)| n.eq_ignore_ascii_case(s));
                match known {
                    Some((kt, n)) => {
                        acc.nontrivial += 1;
                        if tag_name(&t) != n || t != kt {
                            v(acc, "tag-parse-known-name", format!("Tag::try_from({s:?}) = {t:?} (name {:?}), expected the variant named {n:?}", tag_name(&t)), case.clone());
                        }
                    }
                    None => {
                        if tag_name(&t) != *s {
                            v(acc, "tag-parse-verbatim", format!("Tag::try_from({s:?}) has protocol name {:?}", tag_name(&t)), case.clone());
                        }
                    }
                }
                // parsing a tag's own protocol name gives back an equal tag
                match Tag::try_from(tag_name(&t).as_str()) {
                    Ok(t2) if t2 == t => {}
                    other => v(acc, "tag-parse-roundtrip", format!("try_from(name({t:?})) = {other:?}"), case),
                }
            }
        }
    }
    // parsing has no memory: whatever was parsed before, a string parses to the same tag. Every
    // ordered pair of candidates that are equal ignoring ASCII case (and a few unrelated ones) is
    // parsed back to back, with a failing parse in between for half of them.
    let valid: Vec<&String> = cands.iter().filter(|s| !s.is_empty() && s.len() <= 30 && s.bytes().all(|b| b.is_ascii_alphabetic() || b == b'_' || b == b'-')).collect();
    for a in &valid {
        for b in &valid {
            if a == b || !a.eq_ignore_ascii_case(b) {
                continue;
            }
            for junk_between in [false, true] {
                acc.evaluations += 1;
                acc.transitions += 2;
                acc.nontrivial += 1;
                // expected from the protocol's name table, not from an earlier answer of the parser
                let want = named_tags().into_iter().find(|(_, n)| n.eq_ignore_ascii_case(b)).map(|(_, n)| n.to_string()).unwrap_or_else(|| b.to_string());
                let _ = Tag::try_from("ResetProbe");
                let _ = Tag::try_from(a.as_str());
                if junk_between {
                    let _ = Tag::try_from("not a tag!");
                }
                let after = Tag::try_from(b.as_str()).map(|t| tag_name(&t)).map_err(|e| e.to_string());
                if after.as_deref() != Ok(want.as_str()) {
                    v(acc, "tag-parse-history-dependent", format!("Tag::try_from({b:?}) right after parsing {a:?} gives {after:?}, its protocol name is {want:?}"), json!({"kind": "tag-parse-history", "first_hex": hex(a.as_bytes()), "second_hex": hex(b.as_bytes())}));
                }
            }
        }
    }
    for (t, _) in named_tags() {
        acc.evaluations += 1;
        match Tag::try_from(tag_name(&t).as_str()) {
            Ok(t2) if t2 == t => {}
            other => v(acc, "tag-parse-roundtrip", format!("try_from(name({t:?})) = {other:?}"), json!({"kind": "tag-name", "name": tag_name(&t)})),
        }
    }
}

fn check_subsystem_pairs(acc: &mut Acc) {
    let mut domain: Vec<Subsystem> = named_subsystems().into_iter().map(|(s, _)| s).collect();
    for (s, n) in named_subsystems() {
        acc.evaluations += 1;
        if s.as_str() != n {
            v(acc, "subsystem-name-table", format!("{s:?}.as_str() = {:?}, protocol name is {n:?}", s.as_str()), json!({"kind": "subsystem-name", "name": n}));
        }
        for c in case_variants(n) {
            domain.push(Subsystem::Other(c.into_boxed_str()));
        }
    }
    domain.push(Subsystem::Other("newthing".into()));
    for a in &domain {
        for b in &domain {
            acc.evaluations += 1;
            acc.transitions += 2;
            let same = a.as_str() == b.as_str();
            let case = json!({"kind": "subsystem-pair", "a": format!("{a:?}"), "b": format!("{b:?}")});
            if (a == b) != same {
                v(acc, "subsystem-eq", format!("{a:?} == {b:?} is {}", a == b), case.clone());
            }
            if same {
                acc.nontrivial += 1;
                if h1(a) != h1(b) || hash64(a) != hash64(b) {
                    v(acc, "subsystem-hash", format!("{a:?} and {b:?} are equal by name but hash differently"), case.clone());
                }
                let mut hm = HashMap::new();
                hm.insert(a.clone(), 1);
                let mut hs = HashSet::new();
                hs.insert(a.clone());
                if hm.get(b) != Some(&1) || !hs.contains(b) {
                    v(acc, "subsystem-map-key", format!("{b:?} does not find the entry stored under {a:?}"), case);
                }
            }
        }
    }
}

const EVENT_NAMES: &[&str] = &[
    "database", "message", "mixer", "options", "output", "partition", "player", "playlist", "sticker", "stored_playlist", "subscription", "update", "neighbor", "mount", "newthing", "Player", "PLAYLIST", "stored-playlist",
];

fn check_subsystem_events(acc: &mut Acc) {
    for name in EVENT_NAMES {
        acc.evaluations += 1;
        acc.transitions += 1;
        acc.nontrivial += 1;
        let mut scn = Scenario::new("C20-notify", vec![CallerProg { ops: vec![], pipeline: false }]);
        scn.notify_names = vec![name];
        scn.notify_budget = 1;
        let mut chooser = NameChooser { names: vec![format!("Notify({name})")], cursor: 0, repeats: 0 };
        let t = run_once(&scn, &mut chooser).unwrap_or_else(|e| machinery_error(&e));
        let got: Vec<String> = t.events.iter().map(|e| e.text.clone()).collect();
        if got != vec![format!("changed:{name}")] {
            v(acc, "subsystem-event-name", format!("the server reported `changed: {name}` but the received event(s) are {got:?}"), json!({"kind": "subsystem-event", "name": name}));
        }
    }
}

pub fn run(tier: Tier) -> i32 {
    let mut ctx = Ctx::new("C20", tier, "model_checking");
    ctx.assume("protocol names of the 31 tags and 14 subsystems are the tables in this check, written from the MPD protocol reference");
    ctx.assume("a tag's protocol name is observed through its Argument rendering (Tag::as_str is not public)");
    let mut acc = Acc::default();
    check_tag_tables(&mut acc);
    check_tag_pairs(&mut acc);
    check_tag_parse(&mut acc);
    check_subsystem_pairs(&mut acc);
    check_subsystem_events(&mut acc);
    let mut cov = Coverage::default();
    cov.evaluations = acc.evaluations;
    cov.distinct_nontrivial = acc.nontrivial;
    cov.rule = "complete enumeration: all ordered pairs over {31 named tags} U {Other(name) for each name as is / lower / upper / first letter flipped} U {any, x}; all ordered pairs of the analogous subsystem domain; Tag == &str against every name of the domain; every candidate tag string (name variants, name+x, known names with tails of up to 20 letters, plain names of 20..70 / 300 letters, name minus last letter, every name with one letter replaced by each of 7 non-ASCII characters incl. those Unicode case mapping folds onto ASCII, all strings of length <= 2 over 9 byte classes, names that are special elsewhere in the protocol in every letter case, names with leading / trailing characters the protocol cannot carry); every ordered pair of case-variants parsed back to back (parsing has no memory); every subsystem name (14 + unknown + wrong-case spellings) sent as an idle notification through the real client; non-trivial = pairs of distinct values with equal names, invalid or known-name parse inputs, event names".to_string();
    cov.states = acc.evaluations;
    cov.transitions = acc.transitions;
    cov.traces = acc.evaluations;
    cov.exhaustive = true;
    cov.set("state_meaning", json!("states = distinct pairs / parse inputs / event names; transitions = comparisons, hash computations, map lookups, parses and event deliveries executed on the real code"));
    cov.samples = vec![
        json!({"pair": ["Album", "Other(\"Album\")"], "equal": Tag::Album == Tag::Other("Album".into())}),
        json!({"parse": "musicbrainz_trackid", "gives": format!("{:?}", Tag::try_from("musicbrainz_trackid"))}),
        json!({"event": "stored_playlist"}),
    ];
    finish(&ctx, cov, acc.viol)
}

pub fn replay(case: &Value) -> i32 {
    // the domain is small: re-run everything and show the violations (if any) that match the case kind
    println!("replay C20: re-running the complete enumeration (case {case})");
    let mut acc = Acc::default();
    check_tag_tables(&mut acc);
    check_tag_pairs(&mut acc);
    check_tag_parse(&mut acc);
    check_subsystem_pairs(&mut acc);
    check_subsystem_events(&mut acc);
    if acc.viol.is_empty() {
        println!("replay: property holds on the whole domain");
        0
    } else {
        for (sig, (n, ex)) in &acc.viol.by_sig {
            println!("replay: VIOLATION sig={sig} ({n}x): {}", ex[0].what);
        }
        1
    }
}
