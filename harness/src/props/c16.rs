//! C16 — status, stats, count, list, playlist, sticker, channel, tag-type, update and replay-gain
//! replies decode faithfully.
//!
//! Abstract replies per kind (every optional-field subset, boundary numbers, all enum spellings,
//! several field orders, out-of-domain values) are encoded with the protocol's field names,
//! pushed through the real parser, decoded by the real typed commands and compared field by field.

use std::{collections::BTreeMap, time::Duration};

use mpd_client::{
    commands::{self as c, Command, ReplayGainMode, SingleMode},
    filter::Filter,
    responses::PlayState,
    tag::Tag,
};
use serde_json::{json, Value};

use crate::{common::*, mpdref::wire::AFrame, props::c12::make_frames};

type Fields = Vec<(String, String)>;

fn f(k: &str, v: impl ToString) -> (String, String) {
    (k.to_string(), v.to_string())
}

#[derive(Default)]
struct Acc {
    replies: u64,
    nontrivial: u64,
    checks: u64,
    viol: Violations,
}

fn report(acc: &mut Acc, sig: &str, what: String, kind: &str, fields: &Fields) {
    acc.viol.push(Violation::new(format!("C16/{sig}"), format!("{what}; reply {:?}", fields.iter().map(|(k, v)| format!("{k}: {v}")).collect::<Vec<_>>()), json!({"kind": kind, "fields": fields})));
}

fn frame_of(fields: &Fields) -> mpd_client::protocol::response::Frame {
    make_frames(&[AFrame { fields: fields.clone(), binary: None }], false).remove(0)
}

fn ms(s: &str) -> Duration {
    // decimal seconds -> Duration, exact
    let (i, fr) = s.split_once('.').unwrap_or((s, "0"));
    let mut fr = fr.to_string();
    while fr.len() < 9 {
        fr.push('0');
    }
    Duration::new(i.parse().unwrap(), fr.parse().unwrap())
}

// ---- status ---------------------------------------------------------------------------------

/// the optional groups of a status reply
const OPT: [&str; 11] = ["volume", "single", "playlist+length", "song", "nextsong", "time+elapsed", "duration", "bitrate", "xfade", "updating_db", "error+partition"];

#[derive(Clone, Debug)]
struct AStatus {
    present: [bool; 11],
    volume: &'static str,
    state: &'static str,
    repeat: bool,
    random: bool,
    consume: bool,
    single: &'static str,
    playlist: u32,
    playlistlength: usize,
    song: (usize, u64),
    nextsong: (usize, u64),
    elapsed: &'static str,
    total: &'static str,
    duration: &'static str,
    bitrate: u64,
    xfade: u64,
    updating_db: u64,
    error: &'static str,
    partition: &'static str,
}

impl AStatus {
    fn base(mask: u32) -> AStatus {
        let mut present = [false; 11];
        for (i, p) in present.iter_mut().enumerate() {
            *p = mask & (1 << i) != 0;
        }
        AStatus {
            present,
            volume: "37",
            state: "play",
            repeat: true,
            random: false,
            consume: true,
            single: "1",
            playlist: 12,
            playlistlength: 5,
            song: (2, 31),
            nextsong: (3, 32),
            elapsed: "12.345",
            total: "200",
            duration: "200.250",
            bitrate: 320,
            xfade: 4,
            updating_db: 6,
            error: "Failed to open \"x\": y",
            partition: "default",
        }
    }
    /// MPD's documented order (src/command/PlayerCommands.cxx: handle_status)
    fn encode(&self) -> Fields {
        let p = &self.present;
        let mut v = Fields::new();
        if p[10] {
            v.push(f("partition", self.partition));
        }
        if p[0] {
            v.push(f("volume", self.volume));
        }
        v.push(f("repeat", self.repeat as u8));
        v.push(f("random", self.random as u8));
        if p[1] {
            v.push(f("single", self.single));
        }
        v.push(f("consume", self.consume as u8));
        if p[2] {
            v.push(f("playlist", self.playlist));
            v.push(f("playlistlength", self.playlistlength));
        }
        v.push(f("mixrampdb", "0"));
        v.push(f("state", self.state));
        if p[8] {
            v.push(f("xfade", self.xfade));
        }
        if p[3] {
            v.push(f("song", self.song.0));
            v.push(f("songid", self.song.1));
        }
        if p[5] {
            v.push(f("time", format!("{}:{}", self.elapsed.split('.').next().unwrap(), self.total)));
            v.push(f("elapsed", self.elapsed));
        }
        if p[7] {
            v.push(f("bitrate", self.bitrate));
        }
        if p[6] {
            v.push(f("duration", self.duration));
        }
        v.push(f("audio", "44100:16:2"));
        if p[9] {
            v.push(f("updating_db", self.updating_db));
        }
        if p[4] {
            v.push(f("nextsong", self.nextsong.0));
            v.push(f("nextsongid", self.nextsong.1));
        }
        if p[10] {
            v.push(f("error", self.error));
        }
        v
    }
}

fn check_status(a: &AStatus, fields: &Fields, acc: &mut Acc, verbose: bool) {
    acc.replies += 1;
    let r = catch(|| c::Status.response(frame_of(fields)));
    let s = match r {
        Err(p) => return report(acc, "status-panic", format!("status conversion panics: {p}"), "status", fields),
        Ok(Err(e)) => return report(acc, "status-rejected", format!("well-formed status reply rejected: {e}"), "status", fields),
        Ok(Ok(s)) => s,
    };
    if verbose {
        println!("  decoded {s:?}");
    }
    let p = &a.present;
    let mut bad: Vec<(String, String)> = Vec::new();
    let mut cmp = |name: &str, ok: bool, got: String, want: String| {
        acc.checks += 1;
        if !ok {
            bad.push((name.to_string(), format!("{name}: decoded {got}, server sent {want}")));
        }
    };
    let want_vol: u8 = if p[0] { a.volume.parse().unwrap() } else { 0 };
    cmp("volume", s.volume == want_vol, format!("{}", s.volume), format!("{want_vol}"));
    let want_state = match a.state {
        "play" => PlayState::Playing,
        "pause" => PlayState::Paused,
        _ => PlayState::Stopped,
    };
    cmp("state", s.state == want_state, format!("{:?}", s.state), a.state.to_string());
    cmp("repeat", s.repeat == a.repeat, s.repeat.to_string(), a.repeat.to_string());
    cmp("random", s.random == a.random, s.random.to_string(), a.random.to_string());
    cmp("consume", s.consume == a.consume, s.consume.to_string(), a.consume.to_string());
    let want_single = if !p[1] {
        SingleMode::Disabled
    } else {
        match a.single {
            "1" => SingleMode::Enabled,
            "oneshot" => SingleMode::Oneshot,
            _ => SingleMode::Disabled,
        }
    };
    cmp("single", s.single == want_single, format!("{:?}", s.single), format!("{want_single:?}"));
    let (wpv, wpl) = if p[2] { (a.playlist, a.playlistlength) } else { (0, 0) };
    cmp("playlist", s.playlist_version == wpv, s.playlist_version.to_string(), wpv.to_string());
    cmp("playlistlength", s.playlist_length == wpl, s.playlist_length.to_string(), wpl.to_string());
    let ws = if p[3] { Some(a.song) } else { None };
    cmp("song", s.current_song.map(|(x, y)| (x.0, y.0)) == ws, format!("{:?}", s.current_song), format!("{ws:?}"));
    let wn = if p[4] { Some(a.nextsong) } else { None };
    cmp("nextsong", s.next_song.map(|(x, y)| (x.0, y.0)) == wn, format!("{:?}", s.next_song), format!("{wn:?}"));
    let we = if p[5] { Some(ms(a.elapsed)) } else { None };
    cmp("elapsed", s.elapsed == we, format!("{:?}", s.elapsed), format!("{we:?}"));
    // duration: the `duration` field, else the total of the legacy `time: elapsed:total` field
    let wd = if p[6] {
        Some(ms(a.duration))
    } else if p[5] {
        Some(ms(a.total))
    } else {
        None
    };
    cmp(if p[6] { "duration" } else { "legacy-time" }, s.duration == wd, format!("{:?}", s.duration), format!("{wd:?}"));
    let wb = if p[7] { Some(a.bitrate) } else { None };
    cmp("bitrate", s.bitrate == wb, format!("{:?}", s.bitrate), format!("{wb:?}"));
    let wx = if p[8] { Duration::from_secs(a.xfade) } else { Duration::ZERO };
    cmp("xfade", s.crossfade == wx, format!("{:?}", s.crossfade), format!("{wx:?}"));
    let wu = if p[9] { Some(a.updating_db) } else { None };
    cmp("updating_db", s.update_job == wu, format!("{:?}", s.update_job), format!("{wu:?}"));
    let werr = if p[10] { Some(a.error.to_string()) } else { None };
    cmp("error", s.error == werr, format!("{:?}", s.error), format!("{werr:?}"));
    let wp = if p[10] { Some(a.partition.to_string()) } else { None };
    cmp("partition", s.partition == wp, format!("{:?}", s.partition), format!("{wp:?}"));
    for (name, what) in bad {
        report(acc, &format!("status-{name}"), what, "status", fields);
    }
}

fn status_orders(fields: &Fields) -> Vec<Fields> {
    let mut out = vec![fields.clone()];
    let mut r = fields.clone();
    r.reverse();
    out.push(r);
    for k in 1..fields.len() {
        let mut x = fields.clone();
        x.rotate_left(k);
        out.push(x);
    }
    for i in 0..fields.len().saturating_sub(1) {
        let mut x = fields.clone();
        x.swap(i, i + 1);
        out.push(x);
    }
    out
}

fn run_status(acc: &mut Acc, tier: Tier) {
    // every subset of the optional groups, documented order
    for mask in 0..(1u32 << 11) {
        let a = AStatus::base(mask);
        let fields = a.encode();
        acc.nontrivial += 1;
        check_status(&a, &fields, acc, false);
        // other orders for a spread of subsets (all subsets in the thorough tier)
        if tier == Tier::Thorough || mask % 37 == 0 || mask == (1 << 11) - 1 {
            for o in status_orders(&fields).into_iter().skip(1) {
                check_status(&a, &o, acc, false);
            }
        }
    }
    // every field at each of its boundary / enum values, one at a time (everything present)
    let full = (1u32 << 11) - 1;
    let mut variants: Vec<AStatus> = Vec::new();
    for v in ["0", "1", "100", "255"] {
        variants.push(AStatus { volume: v, ..AStatus::base(full) });
    }
    for st in ["play", "pause", "stop"] {
        variants.push(AStatus { state: st, ..AStatus::base(full) });
    }
    for b in [false, true] {
        variants.push(AStatus { repeat: b, random: !b, consume: b, ..AStatus::base(full) });
        variants.push(AStatus { repeat: !b, random: b, consume: b, ..AStatus::base(full) });
        variants.push(AStatus { repeat: b, random: b, consume: !b, ..AStatus::base(full) });
    }
    for sg in ["0", "1", "oneshot"] {
        variants.push(AStatus { single: sg, ..AStatus::base(full) });
    }
    for n in [0u32, 1, u32::MAX] {
        variants.push(AStatus { playlist: n, ..AStatus::base(full) });
    }
    for n in [0usize, 1, usize::MAX] {
        variants.push(AStatus { playlistlength: n, song: (n, 1), nextsong: (1, n as u64), ..AStatus::base(full) });
    }
    for n in [0u64, 1, u64::MAX] {
        variants.push(AStatus { bitrate: n, updating_db: n, song: (1, n), ..AStatus::base(full) });
    }
    for (e, t, d) in [("0.000", "0", "0.000"), ("0.001", "1", "0.001"), ("3599.999", "86400", "86400.500"), ("1.500", "4294967296", "4294967296.000")] {
        variants.push(AStatus { elapsed: e, total: t, duration: d, ..AStatus::base(full) });
        // legacy: no duration field
        variants.push(AStatus { elapsed: e, total: t, duration: d, ..AStatus::base(full & !(1 << 6)) });
    }
    for x in [0u64, 1, 3600] {
        variants.push(AStatus { xfade: x, ..AStatus::base(full) });
    }
    // elapsed is what the server says, also beyond the total (streams: total 0; hand-over to the next song)
    for (e, t, d) in [("10.000", "5", "5.000"), ("4242.500", "0", "0.000"), ("5.001", "5", "5.000")] {
        variants.push(AStatus { elapsed: e, total: t, duration: d, ..AStatus::base(full) });
        variants.push(AStatus { elapsed: e, total: t, duration: d, ..AStatus::base(full & !(1 << 6)) });
    }
    for (e, p) in [("", ""), ("x: y", "second partition"), ("\u{e9}", "p")] {
        variants.push(AStatus { error: e, partition: p, ..AStatus::base(full) });
    }
    for a in &variants {
        acc.nontrivial += 1;
        check_status(a, &a.encode(), acc, false);
    }
    // out-of-domain values must be errors, never a different value
    let bad: &[(&str, &[&str])] = &[
        ("volume", &["256", "-1", "x", ""]),
        ("state", &["playing", "", "Play"]),
        ("repeat", &["2", "true", "", "oneshot", "01", "1 "]),
        ("random", &["2", "x", "oneshot", "on"]),
        ("consume", &["-1", "yes", "2"]),
        ("single", &["2", "one", ""]),
        ("playlist", &["4294967296", "-1", "x"]),
        ("playlistlength", &["18446744073709551616", "x"]),
        ("song", &["x", "-1"]),
        ("songid", &["x", "18446744073709551616"]),
        ("nextsong", &["1.5"]),
        ("nextsongid", &[""]),
        ("elapsed", &["-1", "x", "nan"]),
        ("duration", &["-0.5", "inf", "x"]),
        ("bitrate", &["x", "-1"]),
        ("xfade", &["-1", "x"]),
        ("updating_db", &["x", "-1", "18446744073709551616"]),
    ];
    for (key, vals) in bad {
        for v in *vals {
            let mut fields = AStatus::base(full).encode();
            for fld in fields.iter_mut() {
                if fld.0 == *key {
                    fld.1 = v.to_string();
                }
            }
            acc.replies += 1;
            acc.nontrivial += 1;
            acc.checks += 1;
            match catch(|| c::Status.response(frame_of(&fields))) {
                Ok(Err(_)) => {}
                Ok(Ok(s)) => report(acc, &format!("status-out-of-domain-{key}"), format!("`{key}: {v}` is outside the field's domain but the reply decodes to {s:?}"), "status-raw", &fields),
                Err(p) => report(acc, "status-panic", format!("panic: {p}"), "status-raw", &fields),
            }
        }
    }
    // the legacy `time: elapsed:total` field (servers without `duration`): a value that is not two
    // numbers around one colon is outside its domain
    for v in ["345", "1:2:3", "12:", "x", "", ":", "1:x", "1:-2"] {
        let mut fields = AStatus::base(full & !(1 << 6)).encode();
        for fld in fields.iter_mut() {
            if fld.0 == "time" {
                fld.1 = v.to_string();
            }
        }
        if !fields.iter().any(|f| f.0 == "time") {
            crate::common::machinery_error("C16: the legacy status reply has no time field");
        }
        acc.replies += 1;
        acc.nontrivial += 1;
        acc.checks += 1;
        match catch(|| c::Status.response(frame_of(&fields))) {
            Ok(Err(_)) => {}
            Ok(Ok(s)) => report(acc, "status-out-of-domain-time", format!("`time: {v}` (no duration field) is outside the field's domain but the reply decodes to duration {:?}", s.duration), "status-raw", &fields),
            Err(p) => report(acc, "status-panic", format!("panic: {p}"), "status-raw", &fields),
        }
    }
    // other decimal spellings than MPD's %.3f: the value is the decimal, however many digits
    for text in crate::props::c14::DURATION_SPELLINGS {
        let mut fields = AStatus::base(full).encode();
        for fld in fields.iter_mut() {
            if fld.0 == "elapsed" || fld.0 == "duration" {
                fld.1 = text.to_string();
            }
        }
        acc.replies += 1;
        acc.checks += 2;
        let want = Some(crate::props::c14::dur(text));
        match catch(|| c::Status.response(frame_of(&fields))) {
            Ok(Ok(st)) => {
                if st.elapsed != want || st.duration != want {
                    report(acc, "status-duration-precision", format!("`elapsed/duration: {text}` decodes to {:?} / {:?}, server sent {want:?}", st.elapsed, st.duration), "status-raw", &fields);
                }
            }
            other => report(acc, "status-rejected", format!("well-formed status with elapsed {text}: {other:?}"), "status-raw", &fields),
        }
    }
    // every millisecond value in a range: the decoded duration is exactly the decimal sent
    let mut ms_values: Vec<u64> = (0..=tier.pick(20_000u64, 1_000_000u64)).collect();
    for big in [59_999u64, 3_599_999, 86_400_001, 4_294_967_295, 4_294_967_296_007, 9_007_199_254_740] {
        ms_values.push(big);
    }
    let template = AStatus::base(full).encode();
    for ms in ms_values {
        let text = format!("{}.{:03}", ms / 1000, ms % 1000);
        let mut fields = template.clone();
        for fld in fields.iter_mut() {
            if fld.0 == "elapsed" || fld.0 == "duration" {
                fld.1 = text.clone();
            }
        }
        acc.replies += 1;
        acc.checks += 2;
        match catch(|| c::Status.response(frame_of(&fields))) {
            Ok(Ok(st)) => {
                let want = Some(Duration::from_millis(ms));
                // the value travels through an f64: beyond ~2^22 s its representation error
                // exceeds a nanosecond; allow exactly that error and nothing more
                let close = |got: Option<Duration>| match (got, want) {
                    (Some(g), Some(w)) => g.as_nanos().abs_diff(w.as_nanos()) <= (w.as_nanos() >> 52),
                    _ => false,
                };
                if !close(st.elapsed) || !close(st.duration) {
                    report(acc, "status-duration-precision", format!("`elapsed/duration: {text}` decodes to {:?} / {:?}, server sent {want:?}", st.elapsed, st.duration), "status-raw", &fields);
                }
            }
            other => report(acc, "status-rejected", format!("well-formed status with elapsed {text}: {other:?}"), "status-raw", &fields),
        }
    }
    // a song position without its id is an error
    let mut fields = AStatus::base(full).encode();
    fields.retain(|x| x.0 != "songid");
    acc.replies += 1;
    if let Ok(Ok(s)) = catch(|| c::Status.response(frame_of(&fields))) {
        report(acc, "status-song-without-id", format!("song without songid decodes to {:?}", s.current_song), "status-raw", &fields);
    }
}

// ---- the smaller replies --------------------------------------------------------------------

fn expect_ok<T: std::fmt::Debug, W: std::fmt::Debug + PartialEq<T>>(acc: &mut Acc, kind: &str, fields: &Fields, r: Result<Result<T, mpd_client::responses::TypedResponseError>, String>, want: W) {
    acc.replies += 1;
    acc.checks += 1;
    acc.nontrivial += 1;
    match r {
        Err(p) => report(acc, &format!("{kind}-panic"), format!("[{kind}] panic: {p}"), kind, fields),
        Ok(Err(e)) => report(acc, &format!("{kind}-rejected"), format!("[{kind}] well-formed reply rejected: {e}"), kind, fields),
        Ok(Ok(got)) => {
            if want != got {
                report(acc, &format!("{kind}-value"), format!("[{kind}] decoded {got:?}, server sent {want:?}"), kind, fields);
            }
        }
    }
}

fn expect_err<T: std::fmt::Debug>(acc: &mut Acc, kind: &str, fields: &Fields, r: Result<Result<T, mpd_client::responses::TypedResponseError>, String>) {
    acc.replies += 1;
    acc.checks += 1;
    acc.nontrivial += 1;
    match r {
        Err(p) => report(acc, &format!("{kind}-panic"), format!("[{kind}] panic: {p}"), kind, fields),
        Ok(Err(_)) => {}
        Ok(Ok(got)) => report(acc, &format!("{kind}-out-of-domain"), format!("[{kind}] an out-of-domain reply decodes to {got:?}"), kind, fields),
    }
}

#[derive(Debug, PartialEq)]
struct WStats(u64, u64, u64, Duration, Duration, Duration, u64);
impl PartialEq<mpd_client::responses::Stats> for WStats {
    fn eq(&self, s: &mpd_client::responses::Stats) -> bool {
        (self.0, self.1, self.2, self.3, self.4, self.5, self.6) == (s.artists, s.albums, s.songs, s.uptime, s.playtime, s.db_playtime, s.db_last_update)
    }
}

#[derive(Debug, PartialEq)]
struct WCount(u64, Duration);
impl PartialEq<mpd_client::responses::Count> for WCount {
    fn eq(&self, c: &mpd_client::responses::Count) -> bool {
        (self.0, self.1) == (c.songs, c.playtime)
    }
}

#[derive(Debug, PartialEq)]
struct WGrouped(Vec<(String, u64, Duration)>);
impl PartialEq<Vec<(String, mpd_client::responses::Count)>> for WGrouped {
    fn eq(&self, v: &Vec<(String, mpd_client::responses::Count)>) -> bool {
        self.0.len() == v.len() && self.0.iter().zip(v).all(|(a, b)| a.0 == b.0 && a.1 == b.1.songs && a.2 == b.1.playtime)
    }
}

fn run_small(acc: &mut Acc) {
    let filter = || Filter::tag(Tag::Artist, "x");
    // stats: all orders of a 7-field reply are too many; documented order, reversed, rotations
    for (ar, al, so, up, pl, dp, du) in [(1u64, 2u64, 3u64, 4u64, 5u64, 6u64, 7u64), (0, 0, 0, 0, 0, 0, 0), (u64::MAX, 1, u64::MAX, 4294967296, 1, 4294967296, u64::MAX)] {
        let base: Fields = vec![f("uptime", up), f("playtime", pl), f("artists", ar), f("albums", al), f("songs", so), f("db_playtime", dp), f("db_update", du)];
        for o in status_orders(&base) {
            expect_ok(acc, "stats", &o, catch(|| c::Stats.response(frame_of(&o))), WStats(ar, al, so, Duration::from_secs(up), Duration::from_secs(pl), Duration::from_secs(dp), du));
        }
        for (k, bad) in [("artists", "x"), ("songs", "-1"), ("uptime", "-1"), ("playtime", "x"), ("db_update", "18446744073709551616")] {
            let mut o = base.clone();
            o.iter_mut().filter(|x| x.0 == k).for_each(|x| x.1 = bad.to_string());
            expect_err(acc, "stats", &o, catch(|| c::Stats.response(frame_of(&o))));
        }
        let mut o = base.clone();
        o.remove(2);
        expect_err(acc, "stats", &o, catch(|| c::Stats.response(frame_of(&o))));
    }
    // count
    for (n, p) in [(0u64, 0u64), (1, 1), (u64::MAX, 4294967296), (12, 3600)] {
        for o in [vec![f("songs", n), f("playtime", p)], vec![f("playtime", p), f("songs", n)]] {
            expect_ok(acc, "count", &o, catch(|| c::Count::new(filter()).response(frame_of(&o))), WCount(n, Duration::from_secs(p)));
        }
    }
    for o in [vec![f("songs", "x"), f("playtime", 1)], vec![f("songs", 1), f("playtime", "-1")], vec![f("songs", 1)], vec![f("playtime", 1)]] {
        expect_err(acc, "count", &o, catch(|| c::Count::new(filter()).response(frame_of(&o))));
    }
    // grouped count: 1..=3 groups, songs/playtime in both orders per group, repeated group values
    let groups = [("a", 1u64, 10u64), ("", 2, 20), ("a", u64::MAX, 0)];
    // (MPD reports songs that lack the grouping tag under an empty key)
    for n in 1..=3usize {
        for order_mask in 0..(1u32 << n) {
            let mut fields = Fields::new();
            let mut want = Vec::new();
            for (i, (g, s, p)) in groups.iter().take(n).enumerate() {
                fields.push(f("Album", g));
                if order_mask & (1 << i) != 0 {
                    fields.push(f("playtime", p));
                    fields.push(f("songs", s));
                } else {
                    fields.push(f("songs", s));
                    fields.push(f("playtime", p));
                }
                want.push((g.to_string(), *s, Duration::from_secs(*p)));
            }
            expect_ok(acc, "count-group", &fields, catch(|| c::CountGrouped::new(Tag::Album).response(frame_of(&fields))), WGrouped(want));
        }
    }
    expect_ok(acc, "count-group", &vec![], catch(|| c::CountGrouped::new(Tag::Album).response(frame_of(&vec![]))), WGrouped(vec![]));
    for o in [
        vec![f("Album", "a"), f("songs", 1)],
        vec![f("Album", "a"), f("songs", 1), f("songs", 2)],
        vec![f("Artist", "a"), f("songs", 1), f("playtime", 2)],
        vec![f("songs", 1), f("playtime", 2)],
        vec![f("Album", "a"), f("songs", "x"), f("playtime", 2)],
    ] {
        expect_err(acc, "count-group", &o, catch(|| c::CountGrouped::new(Tag::Album).response(frame_of(&o))));
    }
    // list, plain
    for vals in [vec![], vec!["a"], vec![""], vec!["a", "b b", "", "a", "\u{e9}", " lead", "trail "]] {
        let fields: Fields = vals.iter().map(|v| f("Album", v)).collect();
        acc.replies += 1;
        acc.checks += 1;
        acc.nontrivial += 1;
        match catch(|| c::List::new(Tag::Album).response(frame_of(&fields))) {
            Ok(Ok(l)) => {
                let got: Vec<String> = l.values().map(|s| s.to_string()).collect();
                let got2: Vec<String> = l.clone().into_iter().collect();
                let got3: Vec<String> = l.grouped_values().map(|(v, _)| v.to_string()).collect();
                let want: Vec<String> = vals.iter().map(|s| s.to_string()).collect();
                if got != want || got2 != want || got3 != want || l.values().len() != want.len() {
                    report(acc, "list-value", format!("[list] decoded {got:?} / {got2:?} / {got3:?}, server sent {want:?}"), "list", &fields);
                }
            }
            other => report(acc, "list-rejected", format!("[list] {other:?}"), "list", &fields),
        }
    }
    // list grouped by one tag: group line precedes its values; repeated and changing group keys
    {
        let fields: Fields = vec![f("Artist", "x"), f("Album", "a"), f("Album", "b"), f("Artist", "y"), f("Album", "c"), f("Artist", "x"), f("Album", "a")];
        let want = vec![("a", ["x"]), ("b", ["x"]), ("c", ["y"]), ("a", ["x"])];
        acc.replies += 1;
        acc.checks += 1;
        acc.nontrivial += 1;
        match catch(|| c::List::new(Tag::Album).group_by([Tag::Artist]).response(frame_of(&fields))) {
            Ok(Ok(l)) => {
                let got: Vec<(String, [String; 1])> = l.grouped_values().map(|(v, g)| (v.to_string(), g.map(|s| s.to_string()))).collect();
                let want: Vec<(String, [String; 1])> = want.iter().map(|(v, g)| (v.to_string(), g.map(|s| s.to_string()))).collect();
                if got != want || l.grouped_by() != &[Tag::Artist] {
                    report(acc, "list-group-value", format!("[list group 1] decoded {got:?}, server sent {want:?}"), "list-group1", &fields);
                }
            }
            other => report(acc, "list-rejected", format!("[list group 1] {other:?}"), "list-group1", &fields),
        }
    }
    // (round 7) every reply of <= 5 lines over {Artist, Album} x {x, a, ""} that starts with a group line, incl.
    // identical neighbouring texts (a self-titled album, untagged songs) - reference: a group line sets the
    // group, a value line yields (value, group)
    {
        let symbols: Vec<(&str, &str)> = vec![("Artist", "x"), ("Artist", "a"), ("Artist", ""), ("Album", "x"), ("Album", "a"), ("Album", "")];
        let mut seqs: Vec<Vec<usize>> = vec![vec![0], vec![1], vec![2]];
        let mut layer = seqs.clone();
        for _ in 0..4 {
            let mut next = Vec::new();
            for s in &layer {
                for k in 0..symbols.len() {
                    let mut t = s.clone();
                    t.push(k);
                    next.push(t);
                }
            }
            seqs.extend(next.iter().cloned());
            layer = next;
        }
        for seq in &seqs {
            let fields: Fields = seq.iter().map(|&k| f(symbols[k].0, symbols[k].1)).collect();
            let mut cur = String::new();
            let mut want: Vec<(String, [String; 1])> = Vec::new();
            for &k in seq {
                if symbols[k].0 == "Artist" {
                    cur = symbols[k].1.to_string();
                } else {
                    want.push((symbols[k].1.to_string(), [cur.clone()]));
                }
            }
            acc.replies += 1;
            acc.checks += 1;
            match catch(|| c::List::new(Tag::Album).group_by([Tag::Artist]).response(frame_of(&fields))) {
                Ok(Ok(l)) => {
                    let got: Vec<(String, [String; 1])> = l.grouped_values().map(|(v, g)| (v.to_string(), g.map(|s| s.to_string()))).collect();
                    if got != want {
                        report(acc, "list-group-value", format!("[list Album group Artist] decoded {got:?}, server sent {want:?}"), "list-group1", &fields);
                    }
                }
                other => report(acc, "list-rejected", format!("[list Album group Artist] {other:?}"), "list-group1", &fields),
            }
            // the same texts as a plain list of albums (group lines left out)
            let vals: Vec<&str> = seq.iter().filter(|&&k| symbols[k].0 == "Album").map(|&k| symbols[k].1).collect();
            let fields: Fields = vals.iter().map(|v| f("Album", *v)).collect();
            acc.checks += 1;
            match catch(|| c::List::new(Tag::Album).response(frame_of(&fields))) {
                Ok(Ok(l)) => {
                    let got: Vec<String> = l.values().map(|s| s.to_string()).collect();
                    if got != vals {
                        report(acc, "list-value", format!("[list] decoded {got:?}, server sent {vals:?}"), "list", &fields);
                    }
                }
                other => report(acc, "list-rejected", format!("[list] {other:?}"), "list", &fields),
            }
        }
    }
    // grouped by two tags, values in the order passed to group_by; with tags the library has a
    // variant for and tags it has not (all of which are `Tag::Other`)
    let other = |n: &'static str| Tag::Other(n.into());
    let triples: Vec<(&str, Tag, &str, Tag, &str, Tag)> = vec![
        ("Title", Tag::Title, "AlbumArtist", Tag::AlbumArtist, "Album", Tag::Album),
        ("Mood", other("Mood"), "TitleSort", other("TitleSort"), "ShowMovement", other("ShowMovement")),
        ("Mood", other("Mood"), "Album", Tag::Album, "TitleSort", other("TitleSort")),
        ("Title", Tag::Title, "Mood", other("Mood"), "mood", other("mood")),
    ];
    for (pn, pt, g1n, g1t, g2n, g2t) in triples {
        for flip in [false, true] {
            let fields: Fields = vec![f(g1n, "x"), f(g2n, "a"), f(pn, "t1"), f(pn, "t2"), f(g2n, "b"), f(pn, "t3"), f(g1n, "y"), f(g2n, "a"), f(pn, "t1")];
            let want_raw = vec![("t1", "x", "a"), ("t2", "x", "a"), ("t3", "x", "b"), ("t1", "y", "a")];
            let group = if flip { [g2t.clone(), g1t.clone()] } else { [g1t.clone(), g2t.clone()] };
            acc.replies += 1;
            acc.checks += 1;
            acc.nontrivial += 1;
            match catch(|| c::List::new(pt.clone()).group_by(group.clone()).response(frame_of(&fields))) {
                Ok(Ok(l)) => {
                    let got: Vec<(String, [String; 2])> = l.grouped_values().map(|(v, g)| (v.to_string(), g.map(|s| s.to_string()))).collect();
                    let want: Vec<(String, [String; 2])> = want_raw.iter().map(|(t, aa, al)| (t.to_string(), if flip { [al.to_string(), aa.to_string()] } else { [aa.to_string(), al.to_string()] })).collect();
                    if got != want {
                        report(acc, "list-group-value", format!("[list {pn} group {g1n},{g2n}] decoded {got:?}, server sent {want:?}"), "list-group2", &fields);
                    }
                }
                other => report(acc, "list-rejected", format!("[list {pn} group {g1n},{g2n}] {other:?}"), "list-group2", &fields),
            }
        }
    }
    // grouped by one tag the library has no variant for, listing another such tag
    {
        let fields: Fields = vec![f("TitleSort", "k1"), f("Mood", "m1"), f("Mood", "m2"), f("TitleSort", "k2"), f("Mood", "m3")];
        acc.replies += 1;
        acc.checks += 1;
        acc.nontrivial += 1;
        match catch(|| c::List::new(other("Mood")).group_by([other("TitleSort")]).response(frame_of(&fields))) {
            Ok(Ok(l)) => {
                let got: Vec<(String, [String; 1])> = l.grouped_values().map(|(v, g)| (v.to_string(), g.map(|s| s.to_string()))).collect();
                let want: Vec<(String, [String; 1])> = [("m1", "k1"), ("m2", "k1"), ("m3", "k2")].iter().map(|(v, g)| (v.to_string(), [g.to_string()])).collect();
                if got != want {
                    report(acc, "list-group-value", format!("[list Mood group TitleSort] decoded {got:?}, server sent {want:?}"), "list-group1", &fields);
                }
            }
            other => report(acc, "list-rejected", format!("[list Mood group TitleSort] {other:?}"), "list-group1", &fields),
        }
    }
    // listplaylists
    for n in 0..=3usize {
        let names = ["a", "b b", "\u{e9}"];
        let dates = ["2020-06-12T17:53:00Z", "2021-01-01T00:00:00Z", "1999-12-31T23:59:59Z"];
        let fields: Fields = (0..n).flat_map(|i| vec![f("playlist", names[i]), f("Last-Modified", dates[i])]).collect();
        acc.replies += 1;
        acc.checks += 1;
        acc.nontrivial += 1;
        match catch(|| c::GetPlaylists.response(frame_of(&fields))) {
            Ok(Ok(ps)) => {
                let got: Vec<(String, String)> = ps.iter().map(|p| (p.name.clone(), p.last_modified.raw().to_string())).collect();
                let want: Vec<(String, String)> = (0..n).map(|i| (names[i].to_string(), dates[i].to_string())).collect();
                if got != want {
                    report(acc, "listplaylists-value", format!("[listplaylists] decoded {got:?}, server sent {want:?}"), "listplaylists", &fields);
                }
            }
            other => report(acc, "listplaylists-rejected", format!("[listplaylists] {other:?}"), "listplaylists", &fields),
        }
    }
    // other RFC 3339 spellings of a modification date (offsets, fractions): the value is what the server sent
    // (round 7: the chrono build re-rendered it in canonical form)
    for date in TIMESTAMP_SPELLINGS {
        let fields: Fields = vec![f("playlist", "p"), f("Last-Modified", *date), f("playlist", "q"), f("Last-Modified", "2020-06-12T17:53:00Z")];
        acc.replies += 1;
        acc.checks += 1;
        acc.nontrivial += 1;
        match catch(|| c::GetPlaylists.response(frame_of(&fields))) {
            Ok(Ok(ps)) => {
                let got: Vec<(String, String)> = ps.iter().map(|p| (p.name.clone(), p.last_modified.raw().to_string())).collect();
                let want = vec![("p".to_string(), date.to_string()), ("q".to_string(), "2020-06-12T17:53:00Z".to_string())];
                if got != want {
                    report(acc, "listplaylists-value", format!("[listplaylists] decoded {got:?}, server sent {want:?}"), "listplaylists", &fields);
                }
            }
            other => report(acc, "listplaylists-rejected", format!("[listplaylists] {other:?}"), "listplaylists", &fields),
        }
    }
    // stickers: values containing '='
    for (name, value) in [("rating", "5"), ("k", "a=b"), ("k", "=x"), ("k", ""), ("k", "a=b=c"), ("n n", "v v")] {
        let fields: Fields = vec![f("sticker", format!("{name}={value}"))];
        acc.replies += 1;
        acc.checks += 1;
        acc.nontrivial += 1;
        match catch(|| c::StickerGet::new("u", name).response(frame_of(&fields))) {
            Ok(Ok(s)) if s.value == value => {}
            other => report(acc, "sticker-get-value", format!("[sticker get] {other:?}, server sent value {value:?}"), "sticker-get", &fields),
        }
    }
    // every sticker name of length 1..=3 over {a, blank, 2-/3-/4-byte characters, dot} with every value of
    // length 0..=2 over {a, =, 2-byte character, blank}: the name ends at the FIRST '=' (byte, not character, offsets)
    {
        let names: Vec<String> = strings_over(&["a", " ", "\u{e9}", "\u{4fa1}", "\u{1d11e}", "."], 3).into_iter().filter(|n| !n.is_empty()).collect();
        let values = strings_over(&["a", "=", "\u{e9}", " ", "\r"], 2); // (round 8: a trailing CR is part of the value)
        for name in &names {
            let mut list_fields: Fields = Vec::new();
            let mut find_fields: Fields = Vec::new();
            let mut list_want: BTreeMap<String, String> = BTreeMap::new();
            let mut find_want: BTreeMap<String, String> = BTreeMap::new();
            for (i, value) in values.iter().enumerate() {
                let fields: Fields = vec![f("sticker", format!("{name}={value}"))];
                acc.replies += 1;
                acc.checks += 1;
                match catch(|| c::StickerGet::new("u", name).response(frame_of(&fields))) {
                    Ok(Ok(s)) if s.value == *value => {}
                    other => report(acc, "sticker-get-value", format!("[sticker get] {other:?}, server sent name {name:?} value {value:?}"), "sticker-get", &fields),
                }
                // list: distinct names (the name plus a counter); find: one name, distinct files
                list_fields.push(f("sticker", format!("{name}{i}={value}")));
                list_want.insert(format!("{name}{i}"), value.clone());
                find_fields.push(f("file", format!("song {i}.flac")));
                find_fields.push(f("sticker", format!("{name}={value}")));
                find_want.insert(format!("song {i}.flac"), value.clone());
            }
            acc.replies += 2;
            acc.checks += 2;
            acc.nontrivial += 2;
            match catch(|| c::StickerList::new("u").response(frame_of(&list_fields))) {
                Ok(Ok(s)) if s.value.iter().map(|(k, v)| (k.clone(), v.clone())).collect::<BTreeMap<_, _>>() == list_want => {}
                other => report(acc, "sticker-list-value", format!("[sticker list] {other:?}, server sent {list_want:?}"), "sticker-list", &list_fields),
            }
            match catch(|| c::StickerFind::new("", name).response(frame_of(&find_fields))) {
                Ok(Ok(s)) if s.value.iter().map(|(k, v)| (k.clone(), v.clone())).collect::<BTreeMap<_, _>>() == find_want => {}
                other => report(acc, "sticker-find-value", format!("[sticker find] {other:?}, server sent {find_want:?}"), "sticker-find", &find_fields),
            }
        }
    }
    expect_err(acc, "sticker-get", &vec![f("sticker", "novalue")], catch(|| c::StickerGet::new("u", "n").response(frame_of(&vec![f("sticker", "novalue")]))));
    expect_err(acc, "sticker-get", &vec![], catch(|| c::StickerGet::new("u", "n").response(frame_of(&vec![]))));
    {
        let fields: Fields = vec![f("sticker", "a=1"), f("sticker", "b=x=y"), f("sticker", "c=")];
        let want: BTreeMap<String, String> = [("a", "1"), ("b", "x=y"), ("c", "")].iter().map(|(k, v)| (k.to_string(), v.to_string())).collect();
        acc.replies += 1;
        acc.checks += 1;
        acc.nontrivial += 1;
        match catch(|| c::StickerList::new("u").response(frame_of(&fields))) {
            Ok(Ok(s)) if s.value.iter().map(|(k, v)| (k.clone(), v.clone())).collect::<BTreeMap<_, _>>() == want => {}
            other => report(acc, "sticker-list-value", format!("[sticker list] {other:?}, server sent {want:?}"), "sticker-list", &fields),
        }
        let fields: Fields = vec![f("file", "a.flac"), f("sticker", "r=1"), f("file", "b b.mp3"), f("sticker", "r=x=y")];
        let want: BTreeMap<String, String> = [("a.flac", "1"), ("b b.mp3", "x=y")].iter().map(|(k, v)| (k.to_string(), v.to_string())).collect();
        acc.replies += 1;
        acc.checks += 1;
        acc.nontrivial += 1;
        match catch(|| c::StickerFind::new("", "r").response(frame_of(&fields))) {
            Ok(Ok(s)) if s.value.iter().map(|(k, v)| (k.clone(), v.clone())).collect::<BTreeMap<_, _>>() == want => {}
            other => report(acc, "sticker-find-value", format!("[sticker find] {other:?}, server sent {want:?}"), "sticker-find", &fields),
        }
    }
    // channels, messages, tag types, update / rescan, replay gain
    for n in 0..=3usize {
        let ch = ["c1", "c 2", "\u{e9}"];
        let fields: Fields = ch.iter().take(n).map(|x| f("channel", x)).collect();
        expect_ok(acc, "channels", &fields, catch(|| c::ListChannels.response(frame_of(&fields))), ch.iter().take(n).map(|s| s.to_string()).collect::<Vec<_>>());
        let fields: Fields = ch.iter().take(n).flat_map(|x| vec![f("channel", x), f("message", format!("m {x}"))]).collect();
        expect_ok(acc, "readmessages", &fields, catch(|| c::ReadChannelMessages.response(frame_of(&fields))), ch.iter().take(n).map(|s| (s.to_string(), format!("m {s}"))).collect::<Vec<_>>());
    }
    expect_err(acc, "readmessages", &vec![f("channel", "c")], catch(|| c::ReadChannelMessages.response(frame_of(&vec![f("channel", "c")]))));
    expect_err(acc, "channels", &vec![f("message", "c")], catch(|| c::ListChannels.response(frame_of(&vec![f("message", "c")]))));
    {
        let fields: Fields = vec![f("tagtype", "Artist"), f("tagtype", "MUSICBRAINZ_TRACKID"), f("tagtype", "NewTag")];
        expect_ok(acc, "tagtypes", &fields, catch(|| c::GetEnabledTagTypes.response(frame_of(&fields))), vec![Tag::Artist, Tag::MusicBrainzRecordingId, Tag::Other("NewTag".into())]);
        expect_err(acc, "tagtypes", &vec![f("tagtype", "bad tag")], catch(|| c::GetEnabledTagTypes.response(frame_of(&vec![f("tagtype", "bad tag")]))));
    }
    for n in [0u64, 1, 7, u64::MAX] {
        let fields: Fields = vec![f("updating_db", n)];
        expect_ok(acc, "update", &fields, catch(|| c::Update::new().response(frame_of(&fields))), n);
        expect_ok(acc, "rescan", &fields, catch(|| c::Rescan::new().uri("x").response(frame_of(&fields))), n);
    }
    expect_err(acc, "update", &vec![f("updating_db", "x")], catch(|| c::Update::new().response(frame_of(&vec![f("updating_db", "x")]))));
    expect_err(acc, "update", &vec![], catch(|| c::Update::new().response(frame_of(&vec![]))));
    for (sp, m) in [("off", ReplayGainMode::Off), ("track", ReplayGainMode::Track), ("album", ReplayGainMode::Album), ("auto", ReplayGainMode::Auto)] {
        let fields: Fields = vec![f("replay_gain_mode", sp)];
        acc.replies += 1;
        acc.checks += 1;
        acc.nontrivial += 1;
        match catch(|| c::ReplayGainStatus.response(frame_of(&fields))) {
            Ok(Ok(s)) if s.mode == m => {}
            other => report(acc, "replay-gain-value", format!("[replay_gain_status] {other:?}, server sent {sp}"), "replay_gain_status", &fields),
        }
    }
    expect_err(acc, "replay_gain_status", &vec![f("replay_gain_mode", "Album")], catch(|| c::ReplayGainStatus.response(frame_of(&vec![f("replay_gain_mode", "Album")]))));
    // addid
    for n in [0u64, 5, u64::MAX] {
        let fields: Fields = vec![f("Id", n)];
        acc.replies += 1;
        acc.checks += 1;
        match catch(|| c::Add::uri("x").response(frame_of(&fields))) {
            Ok(Ok(id)) if id.0 == n => {}
            other => report(acc, "addid-value", format!("[addid] {other:?}, server sent {n}"), "addid", &fields),
        }
    }
}

/// well-formed RFC 3339 timestamps in other spellings than MPD's `...SSZ`
pub const TIMESTAMP_SPELLINGS: &[&str] = &[
    "2020-06-12T17:53:00Z", "2020-06-12T17:53:00+00:00", "2020-06-12T19:53:00+02:00", "2020-06-12T12:23:00-05:30", "2020-06-12T17:53:00.5Z", "2020-06-12T17:53:00.50Z", "2020-06-12T17:53:00.123456789Z",
    "2020-06-12T17:53:00.250+01:00", "1970-01-01T00:00:00Z", "2038-01-19T03:14:08Z", "9999-12-31T23:59:59Z",
];

pub fn run(tier: Tier) -> i32 {
    let mut ctx = Ctx::new("C16", tier, "model_checking");
    ctx.assume("replies are written with the protocol's field names and in MPD's order (status: handle_status; legacy `time: elapsed:total` when `duration` is absent); non-Option struct fields (volume, playlist, playlistlength, xfade, single) default to 0 / disabled when omitted");
    ctx.assume("stats without a database and listplaylists without Last-Modified are outside the domain");
    let mut acc = Acc::default();
    run_status(&mut acc, tier);
    run_small(&mut acc);
    let mut cov = Coverage::default();
    cov.evaluations = acc.replies;
    cov.distinct_nontrivial = acc.nontrivial.min(acc.replies);
    cov.rule = "status: every subset of the 11 optional field groups (2048) in MPD's order, a spread (thorough: all) of them also reversed / every rotation / every adjacent transposition, every field at each boundary or enum value one at a time, every millisecond value 0.000..20.000 s (thorough: ..1000.000 s) for elapsed/duration, every out-of-domain spelling per field; stats, count (plain, grouped with 1..3 groups and both songs/playtime orders), list (plain, grouped by 1 and 2 tags in both group_by orders, repeated and changing keys; every reply of <= 5 lines over 2 tags x 3 texts incl. identical neighbours), listplaylists, sticker get/list/find with '=' in values and every name of length <= 3 over 6 classes (incl. 2-, 3-, 4-byte characters) x every value of length <= 2 over 4 classes, channels, readmessages, tagtypes, update/rescan, replay_gain_status, addid; non-trivial = every reply except the reordered copies".to_string();
    cov.states = acc.replies;
    cov.transitions = acc.checks;
    cov.traces = acc.replies;
    cov.exhaustive = true;
    cov.set("field_comparisons", json!(acc.checks));
    cov.set("state_meaning", json!("states = distinct abstract replies (incl. orderings); transitions = field comparisons between the decoded value and the abstract reply"));
    cov.samples = vec![json!({"status_fields": AStatus::base(0b101_0010_1001).encode()}), json!({"count_group": [["Album", "a"], ["playtime", "10"], ["songs", "1"]]})];
    let (mut cov, mut viol) = (cov, acc.viol);
    second_build_pass(&ctx, &mut cov, &mut viol);
    finish(&ctx, cov, viol)
}

pub fn replay(case: &Value) -> i32 {
    let fields: Fields = case["fields"].as_array().map(|a| a.iter().map(|p| (p[0].as_str().unwrap_or("").to_string(), p[1].as_str().unwrap_or("").to_string())).collect()).unwrap_or_default();
    let kind = case["kind"].as_str().unwrap_or("");
    println!("replay C16 [{kind}]: reply {:?}", fields.iter().map(|(k, v)| format!("{k}: {v}")).collect::<Vec<_>>());
    if kind == "status" {
        // rebuild the abstract reply from the fields: which groups are present, default values otherwise
        let has = |k: &str| fields.iter().any(|x| x.0 == k);
        let mut mask = 0u32;
        for (i, k) in ["volume", "single", "playlist", "song", "nextsong", "elapsed", "duration", "bitrate", "xfade", "updating_db", "partition"].iter().enumerate() {
            if has(k) {
                mask |= 1 << i;
            }
        }
        let a = AStatus::base(mask);
        // only faithful for replies made of base values; otherwise show the decode
        let mut acc = Acc::default();
        if a.encode().iter().all(|x| fields.contains(x)) && fields.len() == a.encode().len() {
            check_status(&a, &fields, &mut acc, true);
            if acc.viol.is_empty() {
                println!("replay: property holds on this case");
                return 0;
            }
            for (sig, (_, ex)) in &acc.viol.by_sig {
                println!("replay: VIOLATION sig={sig}: {}", ex[0].what);
            }
            return 1;
        }
        println!("  decoded: {:?}", catch(|| c::Status.response(frame_of(&fields))));
        println!("replay: (non-base values: compare by eye, or re-run ./check C16 quick)");
        return 0;
    }
    let _ = OPT;
    let mut acc = Acc::default();
    run_small(&mut acc);
    run_status(&mut acc, Tier::Quick);
    let mine: Vec<_> = acc.viol.by_sig.iter().filter(|(_, (_, ex))| ex.iter().any(|v| v.case["kind"].as_str() == Some(kind))).collect();
    if mine.is_empty() {
        println!("replay: property holds for all `{kind}` replies");
        0
    } else {
        for (sig, (_, ex)) in mine {
            println!("replay: VIOLATION sig={sig}: {}", ex[0].what);
        }
        1
    }
}
