//! C19 — frames and responses behave as ordered collections of what the server sent.
//!
//! `seqmc`: every sequence of mutating operations up to a depth on every frame of a bounded
//! family (built by the real parser), all observers compared after every step with a Vec-based
//! model; iterators driven under every front/back pattern.

use std::collections::VecDeque;

use mpd_protocol::response::{Frame, Response};
use rayon::prelude::*;
use serde_json::{json, Value};

use crate::{
    common::*,
    io::parse_responses,
    mpdref::wire::{encode_frame, observe_error, observe_frame, AError, AFrame, BinPos, Wire},
};

const KEYS: &[&str] = &["a", "A", "b"];
const PROBE_KEYS: &[&str] = &["a", "A", "b", "zz"];

#[derive(Clone, Debug, PartialEq, Eq)]
struct Model {
    slots: Vec<Option<(String, String)>>,
    binary: Option<Vec<u8>>,
}

impl Model {
    fn remaining(&self) -> Vec<(String, String)> {
        self.slots.iter().flatten().cloned().collect()
    }
    fn find(&self, k: &str) -> Option<String> {
        self.slots.iter().flatten().find(|(kk, _)| kk == k).map(|(_, v)| v.clone())
    }
    fn get(&mut self, k: &str) -> Option<String> {
        for s in self.slots.iter_mut() {
            if s.as_ref().is_some_and(|(kk, _)| kk == k) {
                return s.take().map(|(_, v)| v);
            }
        }
        None
    }
}

#[derive(Clone, Copy, Debug, PartialEq, Eq)]
enum FOp {
    Get(usize),
    TakeBinary,
}

const OPS: [FOp; 5] = [FOp::Get(0), FOp::Get(1), FOp::Get(2), FOp::Get(3), FOp::TakeBinary];

#[derive(Default)]
struct Acc {
    nodes: u64,
    transitions: u64,
    observer_calls: u64,
    nontrivial: u64,
    frames: u64,
    viol: Violations,
}
impl Acc {
    fn merge(mut self, o: Acc) -> Acc {
        self.nodes += o.nodes;
        self.transitions += o.transitions;
        self.observer_calls += o.observer_calls;
        self.nontrivial += o.nontrivial;
        self.frames += o.frames;
        self.viol.merge(o.viol);
        self
    }
}

fn case(keys: &[usize], bin: u8, ops: &[usize]) -> Value {
    json!({"kind": "frame", "keys": keys, "binary": bin, "ops": ops})
}

fn fail(acc: &mut Acc, sig: &str, what: String, c: &Value) {
    acc.viol.push(Violation::new(format!("C19/{sig}"), what, c.clone()));
}

/// compare every observer of `frame` with the model
/// Every front/back pattern of `steps` calls for short walks; for long ones (large frames) a fixed family:
/// all front, all back, alternating (both phases), front half then back half and the reverse, runs of 3 and
/// 7, and 24 patterns from a fixed linear congruential sequence (deterministic; a subset, stated as such).
fn front_back_patterns(steps: usize) -> Vec<Vec<bool>> {
    if steps <= 12 {
        return (0u32..(1 << steps)).map(|p| (0..steps).map(|s| p & (1 << s) != 0).collect()).collect();
    }
    let mut out: Vec<Vec<bool>> = vec![
        vec![false; steps],
        vec![true; steps],
        (0..steps).map(|s| s % 2 == 0).collect(),
        (0..steps).map(|s| s % 2 == 1).collect(),
        (0..steps).map(|s| s >= steps / 2).collect(),
        (0..steps).map(|s| s < steps / 2).collect(),
        (0..steps).map(|s| (s / 3) % 2 == 0).collect(),
        (0..steps).map(|s| (s / 7) % 2 == 1).collect(),
    ];
    let mut x: u64 = 0x9E37_79B9_7F4A_7C15;
    for _ in 0..24 {
        out.push(
            (0..steps)
                .map(|_| {
                    x = x.wrapping_mul(6364136223846793005).wrapping_add(1442695040888963407);
                    (x >> 33) & 1 == 1
                })
                .collect(),
        );
    }
    out
}

fn observe_all(frame: &Frame, m: &Model, c: &Value, acc: &mut Acc, verbose: bool) {
    let rem = m.remaining();
    acc.observer_calls += 1;
    if verbose {
        println!("    model remaining {:?} binary {:?}", rem, m.binary.as_ref().map(|b| show_bytes(b)));
    }
    for k in PROBE_KEYS {
        if frame.find(k).map(|s| s.to_string()) != m.find(k) {
            fail(acc, "find", format!("find({k:?}) = {:?}, model {:?}", frame.find(k), m.find(k)), c);
        }
    }
    if frame.fields_len() != rem.len() {
        fail(acc, "fields_len", format!("fields_len() = {}, model {}", frame.fields_len(), rem.len()), c);
    }
    if frame.is_empty() != (rem.is_empty() && m.binary.is_none()) {
        fail(acc, "is_empty", format!("is_empty() = {}", frame.is_empty()), c);
    }
    if frame.has_binary() != m.binary.is_some() || frame.binary().map(|b| b.to_vec()) != m.binary {
        fail(acc, "binary", format!("has_binary() = {}, binary() = {:?}", frame.has_binary(), frame.binary()), c);
    }
    // borrowed iteration, every front/back pattern until two consecutive Nones
    let steps = rem.len() + 2;
    let patterns = front_back_patterns(steps);
    for (pattern, bits) in patterns.iter().enumerate() {
        let mut it = frame.fields();
        let mut dq: VecDeque<(String, String)> = rem.iter().cloned().collect();
        for s in 0..steps {
            let back = bits[s];
            let got = if back { it.next_back() } else { it.next() }.map(|(k, v)| (k.to_string(), v.to_string()));
            let want = if back { dq.pop_back() } else { dq.pop_front() };
            acc.observer_calls += 1;
            if got != want {
                fail(acc, "fields-iteration", format!("fields() under front/back pattern #{pattern} step {s}: got {got:?}, model {want:?}"), c);
                break;
            }
        }
    }
    check_iterator_contract(&|| frame.fields(), &|(k, v): (&str, &str)| (k.to_string(), v.to_string()), &rem, "fields()", c, acc);
    check_iterator_contract(&|| frame.clone().into_iter(), &|(k, v)| (k.to_string(), v), &rem, "into_iter()", c, acc);
    let via_ref: Vec<(String, String)> = (&*frame).into_iter().map(|(k, v)| (k.to_string(), v.to_string())).collect();
    if via_ref != rem {
        fail(acc, "ref-into-iter", format!("&frame iteration gives {via_ref:?}, model {rem:?}"), c);
    }
    // clone behaves the same
    let cl = frame.clone();
    if &cl != frame || observe_frame(&cl) != (AFrame { fields: rem.clone(), binary: m.binary.clone() }) {
        fail(acc, "clone", "clone differs from the original".to_string(), c);
    }
    // owned iteration
    for (pattern, bits) in patterns.iter().enumerate() {
        let mut it = frame.clone().into_iter();
        let mut dq: VecDeque<(String, String)> = rem.iter().cloned().collect();
        let take_bin_at = pattern % (steps + 1);
        let mut bin_model = m.binary.clone();
        for s in 0..steps {
            if s == take_bin_at {
                let got = it.take_binary().map(|b| b.to_vec());
                let want = bin_model.take();
                if got != want {
                    fail(acc, "into-iter-take-binary", format!("IntoIter::take_binary at step {s}: got {got:?}, model {want:?}"), c);
                }
            }
            let back = bits[s];
            let got = if back { it.next_back() } else { it.next() }.map(|(k, v)| (k.to_string(), v));
            let want = if back { dq.pop_back() } else { dq.pop_front() };
            acc.observer_calls += 1;
            if got != want {
                fail(acc, "into-iter", format!("into_iter() under pattern #{pattern} step {s}: got {got:?}, model {want:?}"), c);
                break;
            }
        }
        if it.take_binary().map(|b| b.to_vec()) != if take_bin_at < steps { None } else { bin_model.clone() } {
            fail(acc, "into-iter-take-binary", "IntoIter::take_binary after iteration disagrees with the model".to_string(), c);
        }
    }
}

/// Positional and consuming adaptors (`nth`, `nth_back`, `last`, `count`, `size_hint`, `skip`,
/// `step_by`, `rev`) must agree with the sequence that `next()` yields: an iterator type may
/// override any of them.
fn check_iterator_contract<I, T>(make: &dyn Fn() -> I, conv: &dyn Fn(I::Item) -> T, model: &[T], what: &str, c: &Value, acc: &mut Acc)
where
    I: DoubleEndedIterator,
    T: PartialEq + std::fmt::Debug + Clone,
{
    // The adaptors are called on the iterator type itself (a `.map()` in between would replace
    // `nth`, `last`, `count` by the defaults built on `next`).
    let n = model.len();
    acc.observer_calls += 1;
    let (lo, hi) = make().size_hint();
    if lo > n || hi.is_some_and(|h| h < n) {
        fail(acc, "iterator-size-hint", format!("{what}: size_hint {:?} but {n} items remain", (lo, hi)), c);
    }
    let cnt = make().count();
    if cnt != n {
        fail(acc, "iterator-count", format!("{what}: count() = {cnt}, {n} items remain"), c);
    }
    let last = make().last().map(conv);
    if last != model.last().cloned() {
        fail(acc, "iterator-last", format!("{what}: last() = {last:?}, model {:?}", model.last()), c);
    }
    let mb = |j: usize| if j < n { model.get(n - 1 - j).cloned() } else { None };
    for k in 0..=n + 1 {
        acc.observer_calls += 2;
        let mut it = make();
        let got = it.nth(k).map(conv);
        let (lo, hi) = it.size_hint();
        let rest: Vec<T> = it.map(conv).collect();
        let want_rest: Vec<T> = model.iter().skip(k + 1).cloned().collect();
        if got != model.get(k).cloned() || rest != want_rest {
            fail(acc, "iterator-nth", format!("{what}: nth({k}) = {got:?} then the rest {rest:?}; model {:?} then {want_rest:?}", model.get(k)), c);
        }
        if lo > want_rest.len() || hi.is_some_and(|h| h < want_rest.len()) {
            fail(acc, "iterator-size-hint", format!("{what}: after nth({k}) size_hint {:?} but {} items remain", (lo, hi), want_rest.len()), c);
        }
        let mut it = make();
        let got = it.nth_back(k).map(conv);
        let rest: Vec<T> = it.map(conv).collect();
        let want_rest: Vec<T> = model.iter().take(n.saturating_sub(k + 1)).cloned().collect();
        if got != mb(k) || rest != want_rest {
            fail(acc, "iterator-nth-back", format!("{what}: nth_back({k}) = {got:?} then the rest {rest:?}; model {:?} then {want_rest:?}", mb(k)), c);
        }
        if make().skip(k).map(conv).collect::<Vec<_>>() != model.iter().skip(k).cloned().collect::<Vec<_>>() {
            fail(acc, "iterator-skip", format!("{what}: skip({k}) differs from the model"), c);
        }
        if make().rev().nth(k).map(conv) != mb(k) {
            fail(acc, "iterator-rev-nth", format!("{what}: rev().nth({k}) differs from the model"), c);
        }
        if make().rev().skip(k).map(conv).collect::<Vec<_>>() != model.iter().rev().skip(k).cloned().collect::<Vec<_>>() {
            fail(acc, "iterator-rev-skip", format!("{what}: rev().skip({k}) differs from the model"), c);
        }
    }
    for step in [1usize, 2, 3] {
        if make().step_by(step).map(conv).collect::<Vec<_>>() != model.iter().step_by(step).cloned().collect::<Vec<_>>() {
            fail(acc, "iterator-step-by", format!("{what}: step_by({step}) differs from the model"), c);
        }
    }
    if make().rev().map(conv).collect::<Vec<_>>() != model.iter().rev().cloned().collect::<Vec<_>>() {
        fail(acc, "iterator-rev", format!("{what}: rev() differs from the model"), c);
    }
    // internal iteration: fold / rfold / try_fold / try_rfold / for_each and what is built on them
    // (an iterator type may override each of them separately from next / next_back)
    let fwd: Vec<T> = model.to_vec();
    let bwd: Vec<T> = model.iter().rev().cloned().collect();
    let push = |mut v: Vec<T>, x: T| {
        v.push(x);
        v
    };
    let checks: Vec<(&str, Vec<T>, &Vec<T>)> = vec![
        ("fold", make().fold(Vec::new(), |v, x| push(v, conv(x))), &fwd),
        ("rfold", make().rfold(Vec::new(), |v, x| push(v, conv(x))), &bwd),
        ("rev().fold", make().rev().fold(Vec::new(), |v, x| push(v, conv(x))), &bwd),
        ("rev().rfold", make().rev().rfold(Vec::new(), |v, x| push(v, conv(x))), &fwd),
        ("try_fold", make().try_fold(Vec::new(), |v, x| Some(push(v, conv(x)))).unwrap_or_default(), &fwd),
        ("try_rfold", make().try_rfold(Vec::new(), |v, x| Some(push(v, conv(x)))).unwrap_or_default(), &bwd),
        ("for_each", {
            let mut v = Vec::new();
            make().for_each(|x| v.push(conv(x)));
            v
        }, &fwd),
        ("rev().for_each", {
            let mut v = Vec::new();
            make().rev().for_each(|x| v.push(conv(x)));
            v
        }, &bwd),
        ("map().collect", make().map(conv).collect(), &fwd),
        ("rev().map().collect", make().rev().map(conv).collect(), &bwd),
        ("chain(empty)", make().chain(std::iter::empty()).map(conv).collect(), &fwd),
        ("filter(all)", make().filter(|_| true).map(conv).collect(), &fwd),
        ("enumerate", make().enumerate().map(|(_, x)| conv(x)).collect(), &fwd),
    ];
    for (name, got, want) in checks {
        acc.observer_calls += 1;
        if &got != want {
            fail(acc, "iterator-internal-iteration", format!("{what}: {name} yields {got:?}, model {want:?}"), c);
        }
    }
    if make().rev().last().map(conv) != model.first().cloned() || make().rev().count() != n {
        fail(acc, "iterator-internal-iteration", format!("{what}: rev().last() / rev().count() differ from the model"), c);
    }
    if make().position(|_| false).is_some() || make().rfind(|_| false).is_some() || make().any(|_| false) || !make().all(|_| true) {
        fail(acc, "iterator-internal-iteration", format!("{what}: position / rfind / any / all disagree with an iterator of {n} items"), c);
    }
    // mixed: one step from the front, then positional from the back and vice versa
    if n >= 2 {
        let mut it = make();
        let a = it.next().map(conv);
        let b = it.last().map(conv);
        if a != model.first().cloned() || b != model.last().cloned() {
            fail(acc, "iterator-last", format!("{what}: next() then last() = {a:?}, {b:?}"), c);
        }
        let mut it = make();
        let a = it.next_back().map(conv);
        let b = it.nth(1).map(conv);
        let want_b = if n >= 3 { model.get(1).cloned() } else { None };
        if a != model.last().cloned() || b != want_b {
            fail(acc, "iterator-nth", format!("{what}: next_back() then nth(1) = {a:?}, {b:?}; model {:?}, {want_b:?}", model.last()), c);
        }
    }
}

#[allow(clippy::too_many_arguments)]
fn explore(frame: &Frame, m: &Model, keys: &[usize], bin: u8, ops: &mut Vec<usize>, depth: usize, acc: &mut Acc, verbose: bool) {
    acc.nodes += 1;
    let c = case(keys, bin, ops);
    // a panic in an observer or an operation is a verdict on the code under test, not a crash of the check
    if let Err(msg) = catch(std::panic::AssertUnwindSafe(|| observe_all(frame, m, &c, acc, verbose))) {
        fail(acc, "panic", format!("an observer panicked: {msg}"), &c);
        return;
    }
    if depth == 0 {
        return;
    }
    for (oi, op) in OPS.iter().enumerate() {
        ops.push(oi);
        let c2 = case(keys, bin, ops);
        if let Err(msg) = catch(std::panic::AssertUnwindSafe(|| explore_op(frame, m, keys, bin, ops, *op, depth, acc, verbose, &c2))) {
            fail(acc, "panic", format!("{op:?} panicked: {msg}"), &c2);
        }
        ops.pop();
    }
}

#[allow(clippy::too_many_arguments)]
fn explore_op(frame: &Frame, m: &Model, keys: &[usize], bin: u8, ops: &mut Vec<usize>, op: FOp, depth: usize, acc: &mut Acc, verbose: bool, c2: &Value) {
    {
        let mut f2 = frame.clone();
        let mut m2 = m.clone();
        acc.transitions += 1;
        let c2 = c2.clone();
        match &op {
            FOp::Get(k) => {
                let got = f2.get(PROBE_KEYS[*k]);
                let want = m2.get(PROBE_KEYS[*k]);
                if got != want {
                    fail(acc, "get", format!("get({:?}) = {got:?}, model {want:?}", PROBE_KEYS[*k]), &c2);
                }
            }
            FOp::TakeBinary => {
                let got = f2.take_binary().map(|b| b.to_vec());
                let want = m2.binary.take();
                if got != want {
                    fail(acc, "take_binary", format!("take_binary() = {got:?}, model {want:?}"), &c2);
                }
            }
        }
        explore(&f2, &m2, keys, bin, ops, depth - 1, acc, verbose);
    }
}

/// `bin % 3`: 0 = no binary part, 1 = a payload with protocol-like bytes, 2 = a zero-length payload
/// (`binary: 0`, what MPD sends at the end of a picture). `bin / 3`: 0 = pairwise distinct values,
/// 1 = every field has the same value (identical neighbouring lines), 2 = blank-edged values.
fn make_frame(keys: &[usize], bin: u8) -> (Frame, Model) {
    let value = |i: usize| match bin / 3 {
        0 => format!("v{i}"),
        1 => "same".to_string(),
        _ => format!("  v{i}\t "),
    };
    let fields: Vec<(String, String)> = keys.iter().enumerate().map(|(i, k)| (KEYS[*k].to_string(), value(i))).collect();
    let bin = bin % 3;
    let af = AFrame { fields: fields.clone(), binary: match bin {
        0 => None,
        1 => Some(b"\0bin\n".to_vec()),
        _ => Some(Vec::new()),
    } };
    let mut bytes = Vec::new();
    encode_frame(&af, BinPos::Last, &mut bytes);
    bytes.extend_from_slice(b"OK\n");
    let mut rs = parse_responses(&bytes);
    if rs.len() != 1 {
        machinery_error("C19: the parser did not produce the frame under test");
    }
    let frame = rs.remove(0).into_single_frame().unwrap_or_else(|_| machinery_error("C19: unexpected error response"));
    (frame, Model { slots: fields.into_iter().map(Some).collect(), binary: af.binary })
}

// ---- responses ----------------------------------------------------------------------------

fn response_cases() -> Vec<Wire> {
    let f = |i: usize| AFrame::new(&[("n", &i.to_string())]);
    let e = AError::new(50, 0, Some("play"), "x");
    let mut v = vec![Wire::Single(AFrame::default()), Wire::Single(f(0))];
    for n in 1..=3 {
        v.push(Wire::List((0..n).map(f).collect()));
    }
    v.push(Wire::SingleErr { partial: AFrame::default(), err: e.clone() });
    // a command that printed part of its output before it failed: the output belongs to no
    // successful frame
    v.push(Wire::SingleErr { partial: f(7), err: e.clone() });
    v.push(Wire::SingleErr { partial: AFrame { fields: vec![("n".into(), "8".into()), ("m".into(), "x".into())], binary: Some(b"bin".to_vec()) }, err: e.clone() });
    // zero-length and ordinary payloads inside responses
    v.push(Wire::Single(AFrame { fields: vec![], binary: Some(Vec::new()) }));
    v.push(Wire::List(vec![f(0), AFrame { fields: vec![("size".into(), "0".into())], binary: Some(Vec::new()) }, AFrame { fields: vec![], binary: Some(b"x\ny".to_vec()) }]));
    for n in 1..=3 {
        let mut e2 = e.clone();
        e2.index = n as u64;
        v.push(Wire::ListErr { done: (0..n).map(f).collect(), partial: f(9), err: e2 });
        // (round 7) the error's command index is a number the server sent; the frames in front of it are the
        // frames in front of it, whatever that number is
        for idx in [0u64, n as u64 + 3] {
            let mut e3 = e.clone();
            e3.index = idx;
            v.push(Wire::ListErr { done: (0..n).map(f).collect(), partial: AFrame::default(), err: e3 });
        }
    }
    v
}

type Item = Result<AFrame, AError>;

fn check_response(w: &Wire, acc: &mut Acc, verbose: bool) {
    let mut bytes = Vec::new();
    w.encode(BinPos::Last, &mut bytes);
    let mut rs = parse_responses(&bytes);
    if rs.len() != 1 {
        machinery_error("C19: the parser did not produce the response under test");
    }
    let resp: Response = rs.remove(0);
    let exp = w.expected();
    let mut items: Vec<Item> = exp.frames.iter().cloned().map(Ok).collect();
    if let Some(e) = &exp.error {
        items.push(Err(e.clone()));
    }
    let c = json!({"kind": "response", "stream": show_bytes(&bytes)});
    acc.nodes += 1;
    if verbose {
        println!("  response {:?}: model items {}", show_bytes(&bytes), items.len());
    }
    if resp.successful_frames() != exp.frames.len() || resp.is_error() != exp.error.is_some() || resp.is_success() == exp.error.is_some() {
        fail(acc, "response-accessors", format!("successful_frames() = {}, is_error() = {}", resp.successful_frames(), resp.is_error()), &c);
    }
    let steps = items.len() + 2;
    for pattern in 0u32..(1 << steps) {
        // borrowed
        let mut it = resp.frames();
        let mut dq: VecDeque<Item> = items.iter().cloned().collect();
        for s in 0..steps {
            acc.observer_calls += 1;
            let (lo, hi) = it.size_hint();
            if lo != dq.len() || hi != Some(dq.len()) || it.len() != dq.len() {
                fail(acc, "frames-size-hint", format!("frames() size_hint {:?} / len {} with {} items left (pattern {pattern:#b} step {s})", (lo, hi), it.len(), dq.len()), &c);
                break;
            }
            let back = pattern & (1 << s) != 0;
            let got: Option<Item> = if back { it.next_back() } else { it.next() }.map(|r| r.map(observe_frame).map_err(observe_error));
            let want = if back { dq.pop_back() } else { dq.pop_front() };
            if got != want {
                fail(acc, "frames-iteration", format!("frames() pattern {pattern:#b} step {s}: got {got:?}, model {want:?}"), &c);
                break;
            }
        }
        // via &Response
        let v: Vec<Item> = (&resp).into_iter().map(|r| r.map(observe_frame).map_err(observe_error)).collect();
        if v != items {
            fail(acc, "ref-into-iter", "&response iteration differs".to_string(), &c);
        }
        // owned
        let mut it = resp.clone().into_iter();
        let mut dq: VecDeque<Item> = items.iter().cloned().collect();
        for s in 0..steps {
            acc.observer_calls += 1;
            let (lo, hi) = it.size_hint();
            if lo != dq.len() || hi != Some(dq.len()) || it.len() != dq.len() {
                fail(acc, "into-iter-size-hint", format!("into_iter() size_hint {:?} with {} items left (pattern {pattern:#b} step {s})", (lo, hi), dq.len()), &c);
                break;
            }
            let back = pattern & (1 << s) != 0;
            let got: Option<Item> = if back { it.next_back() } else { it.next() }.map(|r| r.map(|f| observe_frame(&f)).map_err(|e| observe_error(&e)));
            let want = if back { dq.pop_back() } else { dq.pop_front() };
            if got != want {
                fail(acc, "into-iter", format!("into_iter() pattern {pattern:#b} step {s}: got {got:?}, model {want:?}"), &c);
                break;
            }
        }
    }
    check_iterator_contract(&|| resp.frames(), &|r| r.map(observe_frame).map_err(observe_error), &items, "frames()", &c, acc);
    check_iterator_contract(&|| resp.clone().into_iter(), &|r| r.map(|f| observe_frame(&f)).map_err(|e| observe_error(&e)), &items, "Response::into_iter()", &c, acc);
    let single: Item = resp.clone().into_single_frame().map(|f| observe_frame(&f)).map_err(|e| observe_error(&e));
    if Some(&single) != items.first() {
        fail(acc, "into_single_frame", format!("into_single_frame() = {single:?}, model {:?}", items.first()), &c);
    }
}

fn key_seqs(max: usize) -> Vec<Vec<usize>> {
    let mut out = vec![vec![]];
    let mut layer: Vec<Vec<usize>> = vec![vec![]];
    for _ in 0..max {
        let mut next = Vec::new();
        for s in &layer {
            for k in 0..KEYS.len() {
                let mut t = s.clone();
                t.push(k);
                next.push(t);
            }
        }
        out.extend(next.iter().cloned());
        layer = next;
    }
    out
}

pub fn run(tier: Tier) -> i32 {
    let mut ctx = Ctx::new("C19", tier, "model_checking");
    ctx.assume("the reference is an ordered multimap: Vec<Option<(key, value)>> + Option<binary>; a taken value leaves a hole that every observer skips");
    let depth = tier.pick(5, 6);
    let mut frames: Vec<(Vec<usize>, u8)> = Vec::new();
    for ks in key_seqs(4) {
        for bin in 0..=2u8 {
            frames.push((ks.clone(), bin));
        }
        // identical neighbouring lines / blank-edged values (without and with a payload)
        if !ks.is_empty() {
            for bin in [3u8, 4, 6] {
                frames.push((ks.clone(), bin));
            }
        }
    }
    let acc = frames
        .par_iter()
        .map(|(keys, bin)| {
            let mut acc = Acc::default();
            let (f, m) = make_frame(keys, *bin);
            acc.frames += 1;
            if keys.len() >= 2 {
                acc.nontrivial += 1;
            }
            explore(&f, &m, keys, *bin, &mut Vec::new(), depth, &mut acc, false);
            acc
        })
        .reduce(Acc::default, Acc::merge);
    // large frames (round 6: code that behaves differently beyond some size - an unstable sort is stable
    // below 21 elements): 21..100 fields cycling over the three keys, every sequence of <= 2 operations plus
    // runs that empty many slots; long walks use the fixed pattern family of front_back_patterns
    let large: Vec<(Vec<usize>, u8)> = [21usize, 22, 33, 40, 64, 100].iter().flat_map(|&n| [0u8, 1, 3].map(|bin| ((0..n).map(|i| (i * i + i / 3) % 3).collect::<Vec<usize>>(), bin))).collect();
    let lacc = large
        .par_iter()
        .map(|(keys, bin)| {
            let mut acc = Acc::default();
            let (f, m) = make_frame(keys, *bin);
            acc.frames += 1;
            acc.nontrivial += 1;
            explore(&f, &m, keys, *bin, &mut Vec::new(), 2, &mut acc, false);
            // directed runs: take many values of one key / of all keys in turn, observing after every step
            for run in [vec![0usize; 5], vec![2; 9], vec![0, 1, 2, 0, 1, 2, 0, 1, 2, 4], vec![1, 1, 1, 0, 3, 2, 2]] {
                let (mut f, mut m) = (f.clone(), m.clone());
                let mut ops = Vec::new();
                for o in run {
                    ops.push(o);
                    let c = case(keys, *bin, &ops);
                    let r = catch(std::panic::AssertUnwindSafe(|| {
                        match OPS[o] {
                            FOp::Get(k) => {
                                if f.get(PROBE_KEYS[k]) != m.get(PROBE_KEYS[k]) {
                                    fail(&mut acc, "get", format!("get({:?}) disagrees with the model on a frame of {} fields", PROBE_KEYS[k], keys.len()), &c);
                                }
                            }
                            FOp::TakeBinary => {
                                if f.take_binary().map(|b| b.to_vec()) != m.binary.take() {
                                    fail(&mut acc, "take_binary", "take_binary() disagrees with the model".to_string(), &c);
                                }
                            }
                        }
                        acc.transitions += 1;
                        acc.nodes += 1;
                        observe_all(&f, &m, &c, &mut acc, false);
                    }));
                    if let Err(msg) = r {
                        fail(&mut acc, "panic", format!("panicked on a frame of {} fields: {msg}", keys.len()), &c);
                        break;
                    }
                }
            }
            acc
        })
        .reduce(Acc::default, Acc::merge);
    let acc = acc.merge(lacc);
    let mut racc = Acc::default();
    for w in response_cases() {
        check_response(&w, &mut racc, false);
        racc.nontrivial += 1;
    }
    let acc = acc.merge(racc);
    let mut cov = Coverage::default();
    cov.evaluations = acc.nodes;
    cov.distinct_nontrivial = acc.nontrivial;
    cov.rule = format!(
        "frames: all key sequences of length 0..=4 over {{a, A, b}} with distinct values, without a binary part, with a payload and with a zero-length payload, with pairwise distinct, all-identical and blank-edged values ({} frames, built by the real parser) x every sequence of <= {depth} operations from {{get(a), get(A), get(b), get(zz), take_binary}}; after every step every observer incl. fields()/into_iter() under every next/next_back pattern and the positional / consuming adaptors (nth, nth_back, last, count, size_hint, skip, step_by, rev); large frames of 21..100 fields (operation sequences <= 2 and directed runs, a fixed family of 32 walk patterns); responses: 0..=3 frames with and without error (incl. partial output before the error, zero-length payloads) under every front/back pattern with size hints; evaluations = operation-sequence prefixes (search tree nodes); non-trivial = frames with >= 2 fields and all response cases",
        acc.frames
    );
    cov.states = acc.nodes;
    cov.transitions = acc.transitions;
    cov.traces = acc.nodes;
    cov.exhaustive = true;
    cov.set("observer_calls", json!(acc.observer_calls));
    cov.set("depth", json!(depth));
    cov.set("state_meaning", json!("states = nodes of the operation tree (frame, operation prefix), no merging; transitions = mutating operations applied to the real Frame"));
    cov.samples = vec![json!({"frame_keys": ["a", "A", "a", "b"], "ops": ["get(a)", "take_binary", "get(a)", "get(zz)"]}), json!({"response": "n: 0\\nlist_OK\\nn: 1\\nlist_OK\\nACK [50@2] {play} x\\n", "patterns": 32})];
    finish(&ctx, cov, acc.viol)
}

pub fn replay(case: &Value) -> i32 {
    let mut acc = Acc::default();
    if case["kind"].as_str() == Some("response") {
        println!("replay C19: all response cases");
        for w in response_cases() {
            check_response(&w, &mut acc, true);
        }
    } else {
        let keys: Vec<usize> = case["keys"].as_array().map(|a| a.iter().filter_map(|x| x.as_u64().map(|v| (v as usize).min(2))).collect()).unwrap_or_default();
        let bin = case["binary"].as_u64().map(|v| v.min(8) as u8).or_else(|| case["binary"].as_bool().map(|b| b as u8)).unwrap_or(0);
        let ops: Vec<usize> = case["ops"].as_array().map(|a| a.iter().filter_map(|x| x.as_u64().map(|v| (v as usize).min(4))).collect()).unwrap_or_default();
        println!("replay C19: frame keys {:?} binary {bin}, operations {:?}", keys.iter().map(|k| KEYS[*k]).collect::<Vec<_>>(), ops.iter().map(|o| format!("{:?}", OPS[*o])).collect::<Vec<_>>());
        let (mut f, mut m) = make_frame(&keys, bin);
        let mut done = Vec::new();
        observe_all(&f, &m, &json!({}), &mut acc, true);
        for o in ops {
            done.push(o);
            match OPS[o] {
                FOp::Get(k) => {
                    let got = f.get(PROBE_KEYS[k]);
                    let want = m.get(PROBE_KEYS[k]);
                    println!("  get({:?}) -> {got:?} (model {want:?})", PROBE_KEYS[k]);
                    if got != want {
                        fail(&mut acc, "get", "get differs".into(), &json!({}));
                    }
                }
                FOp::TakeBinary => {
                    let got = f.take_binary().map(|b| b.to_vec());
                    let want = m.binary.take();
                    println!("  take_binary() -> {got:?} (model {want:?})");
                    if got != want {
                        fail(&mut acc, "take_binary", "take_binary differs".into(), &json!({}));
                    }
                }
            }
            observe_all(&f, &m, &json!({}), &mut acc, true);
        }
    }
    if acc.viol.is_empty() {
        println!("replay: property holds on this case");
        0
    } else {
        for (sig, (n, ex)) in &acc.viol.by_sig {
            println!("replay: VIOLATION sig={sig} ({n}x): {}", ex[0].what);
        }
        1
    }
}
