//! Bounded grammar of abstract MPD responses shared by C02, C03, C09, C10.

use crate::mpdref::wire::{AError, AFrame, BinPos, Wire};

/// (`a` / `A`: names that differ in letter case only are different names)
pub const KEYS: &[&str] = &["a", "A", "Foo_bar", "Last-Modified"];
pub const VALUES: &[&str] = &["", "v", "OK", "list_OK", "ACK [5@0] {} x", "binary: 3", "k: v", "\u{e9}", " lead", "trail ", "a\tb", "\r"];

pub fn binaries(big: bool) -> Vec<Vec<u8>> {
    let mut v: Vec<Vec<u8>> = vec![b"".to_vec(), b"x".to_vec(), b"OK\n".to_vec(), b"\n".to_vec(), b"\0\xff".to_vec(), b"list_OK\nACK ".to_vec()];
    if big {
        v.push((0..=255u8).collect());
        v.push(vec![b'z'; 5000]);
    }
    v
}

pub fn errors() -> Vec<AError> {
    let mut v = Vec::new();
    for code in [0u64, 5, 50, u64::MAX] {
        for index in [0u64, 1, 2] {
            for cmd in [None, Some("play"), Some("command_list_end")] {
                for msg in ["", "msg", "{x} [1@2]", "\u{e9}"] {
                    v.push(AError::new(code, index, cmd, msg));
                }
            }
        }
    }
    v
}

/// every field list of length 0..=max over KEYS x VALUES
pub fn field_lists(max: usize) -> Vec<Vec<(String, String)>> {
    let pairs: Vec<(String, String)> = KEYS.iter().flat_map(|k| VALUES.iter().map(move |v| (k.to_string(), v.to_string()))).collect();
    let mut out = vec![vec![]];
    let mut layer: Vec<Vec<(String, String)>> = vec![vec![]];
    for _ in 0..max {
        let mut next = Vec::new();
        for l in &layer {
            for p in &pairs {
                let mut t = l.clone();
                t.push(p.clone());
                next.push(t);
            }
        }
        out.extend(next.iter().cloned());
        layer = next;
    }
    out
}

/// six representative frames for list-level enumeration
pub fn frame_pool() -> Vec<AFrame> {
    vec![
        AFrame::default(),
        AFrame::new(&[("a", "v")]),
        AFrame::new(&[("a", "OK")]),
        AFrame::new(&[("Foo_bar", "list_OK"), ("a", "")]),
        AFrame::new(&[("a", "v")]).with_binary(b"OK\n"),
        AFrame::default().with_binary(b"\0\xff"),
    ]
}

/// Tier A: single responses, field-level exhaustive.
pub fn tier_a(max_fields: usize, big: bool) -> Vec<Wire> {
    let mut out = Vec::new();
    for fl in field_lists(max_fields) {
        out.push(Wire::Single(AFrame { fields: fl, binary: None }));
    }
    for fl in field_lists(1) {
        for b in binaries(big) {
            out.push(Wire::Single(AFrame { fields: fl.clone(), binary: Some(b) }));
        }
    }
    out
}

/// Tier B: list forms and errors over the frame pool.
pub fn tier_b(max_list: usize) -> Vec<Wire> {
    let pool = frame_pool();
    let mut out = Vec::new();
    // lists of length 1..=max_list
    let mut lists: Vec<Vec<AFrame>> = vec![vec![]];
    let mut all_lists: Vec<Vec<AFrame>> = Vec::new();
    for _ in 0..max_list {
        let mut next = Vec::new();
        for l in &lists {
            for f in &pool {
                let mut t = l.clone();
                t.push(f.clone());
                next.push(t);
            }
        }
        all_lists.extend(next.iter().cloned());
        lists = next;
    }
    for l in &all_lists {
        out.push(Wire::List(l.clone()));
    }
    let errs = errors();
    // single error: every error, after each partial output
    for e in &errs {
        out.push(Wire::SingleErr { partial: AFrame::default(), err: e.clone() });
    }
    for p in &pool[1..] {
        for e in errs.iter().step_by(7) {
            out.push(Wire::SingleErr { partial: p.clone(), err: e.clone() });
        }
    }
    // list errors: after 0..=2 completed frames, with partial output of the failing command
    let mut dones: Vec<Vec<AFrame>> = vec![vec![]];
    dones.extend(all_lists.iter().filter(|l| l.len() <= 2).cloned());
    let partials = [AFrame::default(), AFrame::new(&[("a", "v")]), AFrame::default().with_binary(b"OK\n")];
    for d in &dones {
        for p in &partials {
            for e in errs.iter().step_by(37) {
                let mut e = e.clone();
                e.index = d.len() as u64;
                out.push(Wire::ListErr { done: d.clone(), partial: p.clone(), err: e.clone() });
                // (round 7) the index is a number the server encoded, not something the frames depend on: a
                // server that counts differently (index 0, or beyond the frames) changes nothing else
                if !d.is_empty() && p.fields.is_empty() && p.binary.is_none() {
                    for idx in [0u64, d.len() as u64 - 1, d.len() as u64 + 2] {
                        let mut e2 = e.clone();
                        e2.index = idx;
                        out.push(Wire::ListErr { done: d.clone(), partial: p.clone(), err: e2 });
                    }
                }
            }
        }
    }
    out
}

/// pool for sequences of responses on one connection
pub fn seq_pool() -> Vec<Wire> {
    vec![
        Wire::Single(AFrame::default()),
        Wire::Single(AFrame::new(&[("a", "OK"), ("Foo_bar", "list_OK")])),
        Wire::Single(AFrame::new(&[("a", "v")]).with_binary(b"OK\n")),
        Wire::Single(AFrame::default().with_binary(b"ACK [5@0] {} x\n")),
        Wire::List(vec![AFrame::new(&[("a", "v")]), AFrame::default()]),
        Wire::SingleErr { partial: AFrame::default(), err: AError::new(5, 0, None, "unknown command \"x\"") },
        Wire::ListErr { done: vec![AFrame::new(&[("a", "1")])], partial: AFrame::new(&[("a", "2")]), err: AError::new(50, 1, Some("play"), "No such song") },
        Wire::Single(AFrame::new(&[("Last-Modified", "\u{e9}")])),
    ]
}

pub fn sequences(max_len: usize) -> Vec<Vec<Wire>> {
    let pool = seq_pool();
    let mut out = Vec::new();
    let mut layer: Vec<Vec<Wire>> = vec![vec![]];
    for _ in 0..max_len {
        let mut next = Vec::new();
        for l in &layer {
            for w in &pool {
                let mut t = l.clone();
                t.push(w.clone());
                next.push(t);
            }
        }
        out.extend(next.iter().cloned());
        layer = next;
    }
    out
}

/// Long responses whose structural boundaries sit at / around the receive buffer size and its
/// doublings (4096, 8192, 16384), and binary payloads around those sizes.
pub fn long_streams(thorough: bool) -> Vec<(String, Vec<Wire>)> {
    let mut out = Vec::new();
    let sizes: &[usize] = if thorough { &[4096, 8192, 16384] } else { &[4096, 8192] };
    for &target in sizes {
        for delta in [-1i64, 0, 1] {
            // a value line that ends exactly at target+delta (stream offset of its LF + 1)
            let line_overhead = "a: ".len() + 1;
            let want = (target as i64 + delta) as usize;
            let vlen = want - line_overhead;
            let f = AFrame { fields: vec![("a".into(), "x".repeat(vlen)), ("Foo_bar".into(), "tail".into())], binary: None };
            out.push((format!("value line ending at {want}"), vec![Wire::Single(f), Wire::Single(AFrame::new(&[("a", "next")]))]));
            // many short lines crossing the boundary
            let n = want / 8;
            let f = AFrame { fields: (0..n).map(|i| ("k".to_string(), format!("{:04}", i % 10000))).collect(), binary: None };
            out.push((format!("{n} short lines crossing {want}"), vec![Wire::Single(f)]));
        }
    }
    // a response whose encoded length is EXACTLY the buffer size or one of its doublings, as the
    // whole stream and behind a shorter response (a read that fills the buffer to the last byte,
    // followed by nothing)
    for &target in sizes {
        for delta in [0i64, -1, 1] {
            let total = (target as i64 + delta) as usize;
            let exact = |len: usize| AFrame { fields: vec![("a".into(), "y".repeat(len - "a: \nOK\n".len()))], binary: None };
            out.push((format!("one response of exactly {total} bytes"), vec![Wire::Single(exact(total))]));
            if delta == 0 {
                out.push((format!("a 1904-byte response, then one of exactly {total} bytes"), vec![Wire::Single(exact(1904)), Wire::Single(exact(total))]));
            }
        }
    }
    let bins: &[usize] = if thorough { &[4000, 4085, 4096, 4100, 4200, 8100, 8192, 8300] } else { &[4000, 4096, 4200, 8192] };
    for &b in bins {
        let payload: Vec<u8> = (0..b).map(|i| (i % 251) as u8).collect();
        let f = AFrame { fields: vec![("size".into(), b.to_string()), ("type".into(), "image/png".into())], binary: Some(payload) };
        out.push((format!("binary payload of {b} bytes"), vec![Wire::Single(f), Wire::Single(AFrame::default())]));
    }
    out
}

pub fn encode_items(items: &[Wire], pos: BinPos) -> (Vec<u8>, Vec<usize>) {
    crate::mpdref::wire::encode_stream(items, pos)
}

/// Streams made of several large components in a row (e.g. album art loaded with an 8 KiB binary
/// limit, or a command list of picture requests): every sequence of 1..=max_len binary payload
/// sizes from a pool that straddles the receive buffer size and its doublings, as separate
/// responses and as frames of one list response.
pub fn multi_binary_streams(max_len: usize) -> Vec<(String, Vec<Wire>)> {
    const SIZES: &[usize] = &[10, 4090, 5000, 8192, 9000, 17000];
    let mut seqs: Vec<Vec<usize>> = Vec::new();
    let mut layer: Vec<Vec<usize>> = vec![vec![]];
    for _ in 0..max_len {
        let mut next = Vec::new();
        for s in &layer {
            for &z in SIZES {
                let mut t = s.clone();
                t.push(z);
                next.push(t);
            }
        }
        seqs.extend(next.iter().cloned());
        layer = next;
    }
    let frame = |n: usize, tag: usize| AFrame {
        fields: vec![("size".into(), n.to_string()), ("type".into(), "image/png".into())],
        binary: Some((0..n).map(|i| ((i * 7 + tag) % 253) as u8).collect()),
    };
    let mut out = Vec::new();
    // components far beyond the buffer's second and third doubling, with further responses
    // pipelined behind them (a reader that gives a grown buffer back, or swaps it, must carry
    // those bytes over)
    for &h in &[33_000usize, 40_000, 70_000, 140_000] {
        for tail in [vec![10usize], vec![5000], vec![10, 5000, 10], vec![h]] {
            let mut sizes = vec![h];
            sizes.extend(tail);
            let frames: Vec<AFrame> = sizes.iter().enumerate().map(|(i, &z)| frame(z, i)).collect();
            let mut ws: Vec<Wire> = frames.iter().cloned().map(Wire::Single).collect();
            ws.push(Wire::Single(AFrame::new(&[("a", "after")])));
            out.push((format!("responses with huge binaries {sizes:?}"), ws));
        }
    }
    for s in seqs {
        if s.iter().all(|&z| z < 4096) && s.len() > 1 {
            continue;
        }
        let frames: Vec<AFrame> = s.iter().enumerate().map(|(i, &z)| frame(z, i)).collect();
        out.push((format!("responses with binaries {s:?}"), frames.iter().cloned().map(Wire::Single).collect()));
        if s.len() >= 2 {
            out.push((format!("one list response with binaries {s:?}"), vec![Wire::List(frames), Wire::Single(AFrame::new(&[("a", "after")]))]));
        }
    }
    // round 6: a binary part that is the FIRST (and only) component of its response / frame - no field line
    // in front of it marks the frame as begun (code that moves a large payload out of the receive buffer
    // must still know that a response is in progress)
    let bare = |n: usize, tag: usize| AFrame { fields: vec![], binary: Some((0..n).map(|i| ((i * 7 + tag) % 253) as u8).collect()) };
    for &z in &[10usize, 4090, 4097, 5000, 9000, 17000, 70_000] {
        out.push((format!("response that is one bare binary of {z}"), vec![Wire::Single(bare(z, 1))]));
        out.push((format!("bare binary of {z} followed by a response"), vec![Wire::Single(bare(z, 2)), Wire::Single(AFrame::new(&[("a", "after")]))]));
    }
    out.push(("list of bare binaries [5000, 9000, 10]".to_string(), vec![Wire::List(vec![bare(5000, 3), bare(9000, 4), bare(10, 5)]), Wire::Single(AFrame::new(&[("a", "after")]))]));
    out
}

/// A connection history with many distinct field names: a first response whose single frame has
/// `prior` one-field lines with pairwise distinct names, then a list response of three frames with
/// `fresh` further names. (Whatever the library remembers about names it has seen - an interning
/// cache, its bound, its eviction - must not show in what is decoded.)
pub fn many_names_history(prior: usize, fresh: usize) -> Vec<Wire> {
    let name = |i: usize| {
        let mut n = String::from("n");
        let mut x = i;
        for _ in 0..3 {
            n.push((b'a' + (x % 26) as u8) as char);
            x /= 26;
        }
        n
    };
    let first = AFrame { fields: (0..prior).map(|i| (name(i), format!("v{i}"))).collect(), binary: None };
    let per = fresh.div_ceil(3).max(1);
    let frames: Vec<AFrame> = (0..3).map(|f| AFrame { fields: (f * per..((f + 1) * per).min(fresh)).map(|i| (name(prior + i), format!("w{i}"))).collect(), binary: None }).collect();
    vec![Wire::Single(first), Wire::List(frames), Wire::Single(AFrame::new(&[("a", "after")]))]
}
