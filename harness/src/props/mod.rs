use serde_json::Value;

use crate::common::{machinery_error, Tier};

pub mod c06;
pub mod c07;
pub mod c11;
pub mod c12;
pub mod c14;
pub mod c16;
pub mod c15;
pub mod c19;
pub mod c20;
pub mod grammar;
pub mod loop2;
pub mod loopprops;
pub mod proto;

pub fn run(id: &str, tier: Tier) -> i32 {
    match id {
        "C01" => loopprops::run_c01(tier),
        "C02" => proto::run_c02(tier),
        "C03" => proto::run_c03(tier),
        "C09" => proto::run_c09(tier),
        "C09-edges" => proto::run_c09_edges_child(tier),
        "C10" => proto::run_c10(tier),
        "C04" => loopprops::run_c04(tier),
        "C05" => loopprops::run_c05(tier),
        "C06" => c06::run(tier),
        "C07" => c07::run(tier),
        "C11" => c11::run(tier),
        "C12" => c12::run(tier),
        "C12-part" => c12::run_part(tier),
        "C13" => loop2::run_c13(tier),
        "C14" => c14::run(tier),
        "C15" => c15::run(tier),
        "C16" => c16::run(tier),
        "C17" => loop2::run_c17(tier),
        "C18" => loop2::run_c18(tier),
        "C19" => c19::run(tier),
        "C20" => c20::run(tier),
        "C08" => loopprops::run_c08(tier),
        _ => machinery_error(&format!("unknown property id {id}")),
    }
}

pub fn replay(id: &str, case: &Value) -> i32 {
    match id {
        "C01" | "C04" | "C05" | "C08" => loopprops::replay(id, case),
        "C06" => c06::replay(case),
        "C07" => c07::replay(case),
        "C11" => c11::replay(case),
        "C12" => c12::replay(case),
        "C13" | "C17" | "C18" => loop2::replay(id, case),
        "C14" => c14::replay(case),
        "C15" => c15::replay(case),
        "C16" => c16::replay(case),
        "C19" => c19::replay(case),
        "C20" => c20::replay(case),
        "C02" | "C03" | "C09" | "C10" => proto::replay(id, case),
        _ => machinery_error(&format!("unknown property id {id}")),
    }
}
