use serde_json::Value;

use crate::common::{machinery_error, Tier};

pub mod c06;

pub fn run(id: &str, tier: Tier) -> i32 {
    match id {
        "C06" => c06::run(tier),
        _ => machinery_error(&format!("unknown property id {id}")),
    }
}

pub fn replay(id: &str, case: &Value) -> i32 {
    match id {
        "C06" => c06::replay(case),
        _ => machinery_error(&format!("unknown property id {id}")),
    }
}
