//! C13 (command list framing and typed pairing), C17 (album art reassembly) and C18 (handshake)
//! — decided with `loopmc` on the real `Client` (plus `segmc` for the protocol half of C18).

use std::time::Duration;

use mpd_protocol::{Command, CommandList};
use serde_json::{json, Value};

use crate::{
    common::*,
    engines::loopmc::*,
    io::wire_of_list,
    mpdref::{
        server::{PicSource, RecKind},
        tokenizer::{split_lines, tokenize},
    },
    props::{
        loopprops::{oracle_c01, oracle_c05, run_plans, Plan},
        proto::c18_proto,
    },
};

// =============================================================================================
// C13

fn probe_ids(n: usize) -> Vec<u32> {
    (0..n).map(|i| 11 * (i as u32 + 1)).collect()
}

pub fn oracle_c13(scn: &Scenario, t: &Trace, st: &mut ExploreStats) -> Vec<Violation> {
    let mut out = oracle_c01(scn, t, st);
    for (ci, ops) in t.ops.iter().enumerate() {
        for (oi, rec) in ops.iter().enumerate() {
            let ids = match &rec.op {
                Op::ProbeVec(ids) | Op::ProbeTuple(ids) => ids.clone(),
                _ => continue,
            };
            if rec.issued_step.is_none() || rec.cancelled {
                continue;
            }
            st.count("typed_lists_checked");
            let n = ids.len();
            // framing as seen by the server
            let probe_recs: Vec<_> = t
                .server
                .transcript
                .iter()
                .filter(|r| {
                    matches!(r.kind, RecKind::Command | RecKind::List)
                        && r.lines.iter().any(|l| l.starts_with(b"probe "))
                        && r.lines.iter().any(|l| ids.iter().any(|i| crate::props::loopprops::norm_line(l) == crate::props::loopprops::norm_line(format!("probe {i}").as_bytes())))
                })
                .collect();
            let want_lines: Vec<Vec<u8>> = match n {
                0 => vec![],
                1 => vec![format!("probe {}", ids[0]).into_bytes()],
                _ => {
                    let mut v = vec![b"command_list_ok_begin".to_vec()];
                    v.extend(ids.iter().map(|i| format!("probe {i}").into_bytes()));
                    v.push(b"command_list_end".to_vec());
                    v
                }
            };
            if n == 0 {
                if !probe_recs.is_empty() {
                    out.push(Violation::new("C13/empty-list-written", format!("caller {ci} op {oi}: an empty typed list wrote a request"), Value::Null));
                }
                match &rec.outcome {
                    Some(OpOutcome::Probes(Ok(v))) if v.is_empty() => {}
                    other => out.push(Violation::new("C13/empty-list-result", format!("an empty typed list resolved with {other:?}"), Value::Null)),
                }
                continue;
            }
            if probe_recs.len() != 1 || !crate::props::loopprops::same_lines(&probe_recs[0].lines, &want_lines) {
                out.push(Violation::new(
                    "C13/framing",
                    format!("typed list of {n} commands reached the server as {:?}", probe_recs.iter().map(|r| r.lines.iter().map(|l| show_bytes(l)).collect::<Vec<_>>()).collect::<Vec<_>>()),
                    Value::Null,
                ));
            }
            // positional pairing
            if let Some(OpOutcome::Probes(Ok(v))) = &rec.outcome {
                let want: Vec<String> = ids.iter().map(|i| format!("probe {i}")).collect();
                if v != &want {
                    out.push(Violation::new("C13/pairing", format!("typed list {:?} of {n}: results {v:?}, expected positionally {want:?}", rec.op), Value::Null));
                }
            } else if t.fault.is_none() {
                out.push(Violation::new("C13/typed-list-failed", format!("typed list {:?} resolved with {:?}", rec.op, rec.outcome), Value::Null));
            }
        }
    }
    out
}

fn c13_scenario(op: Op, explore: bool) -> Scenario {
    let mut s = Scenario::new(&format!("C13-{}", match &op {
        Op::ProbeVec(i) => format!("vec{}", i.len()),
        Op::ProbeTuple(i) => format!("tuple{}", i.len()),
        _ => "x".into(),
    }), vec![CallerProg { ops: vec![op], pipeline: false }, CallerProg { ops: vec![Op::Raw("cmd B1".into())], pipeline: false }]);
    if explore {
        s.notify_names = vec!["player"];
        s.notify_budget = 1;
        s.split_budget = 1;
    }
    s
}

/// C13 scenarios beyond the plain shapes (also looked up by name for replays)
fn c13_special_plans(tier: Tier) -> Vec<Plan> {
    let mut plans = Vec::new();
    // replies that carry a binary part at later positions of a typed list: every component gets
    // the frame - fields and payload - of its own command
    {
        let mut s = Scenario::new("C13-mixed-tuple-with-binary-frames", vec![CallerProg { ops: vec![Op::MixedList], pipeline: false }, CallerProg { ops: vec![Op::Raw("cmd B1".into())], pipeline: false }]);
        s.server.per_uri = vec![
            ("pa".to_string(), PicSource::Data(picture(300), Some("image/png".into())), PicSource::Empty),
            ("pb".to_string(), PicSource::Data(picture(41), None), PicSource::Empty),
        ];
        s.notify_names = vec!["player"];
        s.notify_budget = 1;
        s.split_budget = 1;
        plans.push(Plan { scn: s, bound: tier.pick(2, 3) });
    }
    // a command that printed output and then failed, followed by typed lists: nothing of the failed
    // command's output may show up in the lists' frames
    {
        let s = Scenario::new(
            "C13-lists-after-partial-failure",
            vec![CallerProg { ops: vec![Op::Raw("partialfail X1".into()), Op::ProbeTuple(vec![31, 32]), Op::RawList(vec!["partialfail X2".into(), "cmd never".into()]), Op::ProbeVec(vec![41, 42, 43])], pipeline: false }, CallerProg { ops: vec![Op::Raw("cmd B1".into())], pipeline: false }],
        );
        plans.push(Plan { scn: s, bound: tier.pick(2, 3) });
    }
    // a list sent in the window right after a reply, over a transport whose writes stall while time
    // passes: the block goes out whole or the caller is told it failed, never a truncated block
    {
        let mut s = Scenario::new(
            "C13-list-in-the-reply-window-over-a-stalling-transport",
            vec![CallerProg { ops: vec![Op::Raw("cmd A1".into()), Op::ProbeTuple(vec![21, 22, 23])], pipeline: false }],
        );
        s.stall_budget = 1;
        s.tick_anywhere = true;
        s.loose_tick_budget = 2;
        s.long_tick_budget = 0;
        plans.push(Plan { scn: s, bound: tier.pick(4, 5) });
    }
    // a long list is still one block (600 commands; default schedule and first deviations)
    {
        let mut s = Scenario::new("C13-vec600", vec![CallerProg { ops: vec![Op::ProbeVec((0..600u32).map(|i| 1000 + i).collect())], pipeline: false }, CallerProg { ops: vec![Op::Raw("cmd B1".into())], pipeline: false }]);
        s.max_steps = 40;
        plans.push(Plan { scn: s, bound: 1 });
    }
    // (round 7) 80 000 commands are still one block (2 MB on the wire; default schedule)
    plans.push(Plan { scn: crate::props::loopprops::huge_list(tier), bound: 0 });
    // an empty typed list is empty whatever state the connection is in (also after it has ended)
    {
        let mut s = Scenario::new(
            "C13-empty-list-around-connection-end",
            vec![CallerProg { ops: vec![Op::ProbeVec(vec![]), Op::ProbeVec(vec![])], pipeline: false }, CallerProg { ops: vec![Op::Raw("cmd B1".into())], pipeline: false }],
        );
        s.faults = vec![FaultKind::Close, FaultKind::Garbage];
        s.fault_budget = 1;
        plans.push(Plan { scn: s, bound: tier.pick(3, 4) });
    }
    plans
}

/// raw list rendering: every way to build a list of n commands from new / command / add / extend
fn c13_raw(viol: &mut Violations) -> (u64, u64) {
    let mut cases = 0u64;
    let mut lines_checked = 0u64;
    let cmd = |i: usize| Command::new("cmd").argument(i as u32).argument("x y");
    let line = |i: usize| format!("cmd {i} \"x y\"").into_bytes();
    for n in 1..=6usize {
        // a build recipe: for each of the n-1 later commands how it is appended:
        // 0 = .command(), 1 = .add(), 2 = part of an extend() run
        let ways = 3usize.pow((n - 1) as u32);
        for code in 0..ways {
            let mut list = CommandList::new(cmd(0));
            let mut c = code;
            let mut pending_extend: Vec<Command> = Vec::new();
            for i in 1..n {
                let how = c % 3;
                c /= 3;
                if how != 2 && !pending_extend.is_empty() {
                    // (round 7) alternately an exact-size Vec and an iterator whose size_hint has lower bound 0
                    if (code + i) % 2 == 0 {
                        list.extend(std::mem::take(&mut pending_extend));
                    } else {
                        list.extend(std::mem::take(&mut pending_extend).into_iter().filter(|_| true));
                    }
                }
                match how {
                    0 => list = list.command(cmd(i)),
                    1 => list.add(cmd(i)),
                    _ => pending_extend.push(cmd(i)),
                }
            }
            if !pending_extend.is_empty() {
                if code % 2 == 0 {
                    list.extend(pending_extend);
                } else {
                    let mut it = pending_extend.into_iter();
                    list.extend(std::iter::from_fn(move || it.next()));
                }
            }
            cases += 1;
            let len_ok = list.len() == n;
            let w = wire_of_list(list);
            let (lines, rest) = split_lines(&w);
            lines_checked += lines.len() as u64;
            let want: Vec<Vec<u8>> = if n == 1 {
                vec![line(0)]
            } else {
                let mut v = vec![b"command_list_ok_begin".to_vec()];
                v.extend((0..n).map(line));
                v.push(b"command_list_end".to_vec());
                v
            };
            if !len_ok || !rest.is_empty() || lines.iter().map(|l| l.to_vec()).collect::<Vec<_>>() != want {
                viol.push(Violation::new("C13/raw-list-rendering", format!("a list of {n} commands (build recipe {code}) renders to {:?}", show_bytes(&w)), json!({"kind": "raw", "n": n, "recipe": code})));
            }
        }
    }
    // whatever name the builder accepts, a list of N such commands is N + 2 lines
    for name in ["stats\n", "\nstats", "stats\r\n", " stats", "stats ", "sta\nts", "stats\0", "command_list_end", "command_list_begin"] {
        for n in [1usize, 2, 3] {
            let Ok(c0) = Command::build(name) else { continue };
            let mut list = CommandList::new(c0.clone());
            for _ in 1..n {
                list.add(c0.clone());
            }
            cases += 1;
            let w = wire_of_list(list);
            let (lines, rest) = split_lines(&w);
            let want_lines = if n == 1 { 1 } else { n + 2 };
            if !rest.is_empty() || lines.len() != want_lines {
                viol.push(Violation::new("C13/raw-list-rendering", format!("a list of {n} commands named {:?} renders to {} lines: {:?}", show_bytes(name.as_bytes()), lines.len(), show_bytes(&w)), json!({"kind": "raw", "n": n, "recipe": 0})));
            }
        }
    }
    (cases, lines_checked)
}

pub fn run_c13(tier: Tier) -> i32 {
    let mut ctx = Ctx::new("C13", tier, "model_checking");
    ctx.assume("the simulated server answers `probe <i>` with a reply that identifies i, so a swapped or shifted pairing is visible");
    let mut plans = Vec::new();
    for n in 0..=5usize {
        // thorough: every shape with a notification and a split, one deviation deeper
        plans.push(Plan { scn: c13_scenario(Op::ProbeVec(probe_ids(n)), n == 3 || tier == Tier::Thorough), bound: if n == 3 { tier.pick(2, 5) } else { tier.pick(1, 4) } });
    }
    for n in 1..=8usize {
        plans.push(Plan { scn: c13_scenario(Op::ProbeTuple(probe_ids(n)), n == 2 || n == 8 || tier == Tier::Thorough), bound: if n == 2 || n == 8 { tier.pick(2, 5) } else { tier.pick(1, 4) } });
    }
    // an abandoned (cancelled) typed list must not shift the pairing of the next one
    {
        let mut s = Scenario::new(
            "C13-cancelled-list-then-tuple",
            vec![CallerProg { ops: vec![Op::ProbeVec(vec![1, 2, 3]), Op::ProbeTuple(vec![21, 22])], pipeline: true }, CallerProg { ops: vec![Op::Raw("cmd B1".into())], pipeline: false }],
        );
        s.cancel_budget = 1;
        s.split_budget = 1;
        plans.push(Plan { scn: s, bound: tier.pick(3, 4) });
    }
    plans.extend(c13_special_plans(tier));
    // the same lists over a transport that takes only a few bytes per write call
    for (n, chunk) in [(1usize, 1usize), (2, 1), (3, 7), (5, 16), (8, 40)] {
        plans.push(Plan { scn: crate::props::loopprops::with_short_writes(c13_scenario(Op::ProbeVec(probe_ids(n.min(5))), false), chunk), bound: tier.pick(1, 2) });
        plans.push(Plan { scn: crate::props::loopprops::with_short_writes(c13_scenario(Op::ProbeTuple(probe_ids(n)), false), chunk), bound: tier.pick(1, 2) });
    }
    let (mut cov, mut viol) = run_plans(
        &ctx,
        plans,
        &oracle_c13,
        Duration::from_secs(tier.pick(40, 240)),
        "typed Vec lists of length 0..=5 and tuples of arity 1..=8 of distinguishable probe commands through the real Client::command_list, all schedules within the deviation bound (with a second caller; for three shapes also a notification and a split); raw lists of 1..=6 commands built in every mix of new/command/add/extend; non-trivial = typed lists whose framing and pairing were checked against the server transcript",
        &["typed_lists_checked"],
    );
    // a typed Vec list answered with a different number of frames must not come back as a
    // successful result of another length ("a vector of the same length")
    {
        use mpd_client::commands::CommandList as _;
        let frame = crate::props::c12::make_frames(&[crate::mpdref::wire::AFrame::new(&[("echo", "probe 1")])], false).remove(0);
        for n in 0..=5usize {
            for k in 0..=n + 2 {
                let list: Vec<Probe> = (0..n).map(|i| Probe(i as u32)).collect();
                let frames: Vec<_> = (0..k).map(|_| frame.clone()).collect();
                cov.evaluations += 1;
                if let Ok(Ok(v)) = catch(|| list.responses(frames)) {
                    if v.len() != n {
                        viol.push(Violation::new("C13/vec-result-length", format!("a Vec list of {n} commands answered with {k} frames yields Ok with {} results", v.len()), json!({"kind": "vec-length", "n": n, "k": k})));
                    }
                }
            }
        }
    }
    // (round 8) a typed tuple list answered with MORE frames than commands: an error, or the i-th result from the
    // i-th frame - never results taken from the trailing frames
    {
        use mpd_client::commands::CommandList as _;
        let frame = |i: usize| crate::props::c12::make_frames(&[crate::mpdref::wire::AFrame::new(&[("echo", &format!("probe {i}"))])], false).remove(0);
        for extra in 1..=3usize {
            let frames: Vec<_> = (0..2 + extra).map(frame).collect();
            cov.evaluations += 1;
            if let Ok(Ok((a, b))) = catch(|| (Probe(0), Probe(1)).responses(frames)) {
                if a != "probe 0" || b != "probe 1" {
                    viol.push(Violation::new("C13/pairing", format!("a tuple list of 2 commands answered with {} frames yields ({a:?}, {b:?}): results are not taken from the frames of their own commands", 2 + extra), json!({"kind": "tuple-surplus", "extra": extra})));
                }
            }
            let frames: Vec<_> = (0..3 + extra).map(frame).collect();
            cov.evaluations += 1;
            if let Ok(Ok((a, b, c3))) = catch(|| (Probe(0), Probe(1), Probe(2)).responses(frames)) {
                if a != "probe 0" || b != "probe 1" || c3 != "probe 2" {
                    viol.push(Violation::new("C13/pairing", format!("a tuple list of 3 commands answered with {} frames yields ({a:?}, {b:?}, {c3:?})", 3 + extra), json!({"kind": "tuple-surplus", "extra": extra})));
                }
            }
        }
    }
    // (round 7) a list whose write failed leaves nothing behind that a later list would carry in front of it
    viol.merge(crate::props::c07::failed_send_violations("C13"));
    let (raw_cases, raw_lines) = c13_raw(&mut viol);
    cov.evaluations += raw_cases;
    cov.transitions += raw_lines;
    cov.states += raw_cases;
    cov.set("raw_list_build_recipes", json!(raw_cases));
    finish(&ctx, cov, viol)
}

// =============================================================================================
// C17

const ART_URI: &str = "dir/song one.flac";

fn picture(size: usize) -> Vec<u8> {
    // all byte values cycling, with protocol-like bytes up front
    let mut v: Vec<u8> = b"\nOK\nACK [5@0] {} x\nlist_OK\nbinary: 3\n".to_vec();
    let mut i = 0u32;
    while v.len() < size {
        v.push((i % 256) as u8);
        i += 1;
    }
    v.truncate(size);
    v
}

#[derive(Clone, Debug, PartialEq, Eq)]
enum ArtExpect {
    Some(Vec<u8>, Option<String>),
    None,
    Err(u64),
}

/// the requests a correct client makes and the result it returns, from the server configuration
fn art_expectation(embedded: &PicSource, cover: &PicSource, limit: usize, fail_after: Option<(usize, u64)>) -> (Vec<(String, usize)>, ArtExpect) {
    let mut reqs = Vec::new();
    // Err(code): the server failed a request in the middle of the load
    let chunks = |name: &str, len: usize, reqs: &mut Vec<(String, usize)>| -> Result<(), u64> {
        let mut off = 0;
        let mut served = 0usize;
        loop {
            reqs.push((name.to_string(), off));
            if let Some((after, code)) = fail_after {
                if served >= after {
                    return Err(code);
                }
            }
            served += 1;
            off += limit.min(len - off);
            if off >= len {
                return Ok(());
            }
        }
    };
    match embedded {
        PicSource::Data(d, m) => {
            return match chunks("readpicture", d.len(), &mut reqs) {
                Ok(()) => (reqs, ArtExpect::Some(d.clone(), m.clone())),
                Err(code) => (reqs, ArtExpect::Err(code)),
            };
        }
        PicSource::Ack(c) if *c != 5 => {
            reqs.push(("readpicture".into(), 0));
            return (reqs, ArtExpect::Err(*c));
        }
        _ => reqs.push(("readpicture".into(), 0)),
    }
    match cover {
        PicSource::Data(d, _) => match chunks("albumart", d.len(), &mut reqs) {
            Ok(()) => (reqs, ArtExpect::Some(d.clone(), None)),
            Err(code) => (reqs, ArtExpect::Err(code)),
        },
        PicSource::Empty => {
            reqs.push(("albumart".into(), 0));
            (reqs, ArtExpect::None)
        }
        PicSource::Ack(c) => {
            reqs.push(("albumart".into(), 0));
            (reqs, ArtExpect::Err(*c))
        }
    }
}

pub fn oracle_c17(scn: &Scenario, t: &Trace, st: &mut ExploreStats) -> Vec<Violation> {
    let mut out = Vec::new();
    for ops in &t.ops {
        for rec in ops {
            let Op::AlbumArt(uri) = &rec.op else { continue };
            if rec.issued_step.is_none() {
                continue;
            }
            let (emb, cov) = match scn.server.per_uri.iter().find(|(u, _, _)| u == uri) {
                Some((_, e, c)) => (e.clone(), c.clone()),
                None => (scn.server.embedded.clone(), scn.server.cover.clone()),
            };
            let (want_reqs, want_res) = art_expectation(&emb, &cov, scn.server.binary_limit, scn.server.fail_after_chunks);
            st.count("album_art_loads_checked");
            // requests as the server saw them
            let mut got_reqs: Vec<(String, usize)> = Vec::new();
            for r in &t.server.transcript {
                if r.kind != RecKind::Command {
                    continue;
                }
                let Ok(req) = tokenize(&r.lines[0]) else { continue };
                let name = String::from_utf8_lossy(&req.name).into_owned();
                if name == "readpicture" || name == "albumart" {
                    if req.args.first().map(|a| a.as_slice()) != Some(uri.as_bytes()) && scn.server.per_uri.iter().any(|(u, _, _)| req.args.first().map(|a| a.as_slice()) == Some(u.as_bytes())) {
                        continue; // a request of another load in the same scenario
                    }
                    if req.args.len() != 2 || req.args[0] != uri.as_bytes() {
                        out.push(Violation::new("C17/request-shape", format!("album art request {:?} does not carry the URI and one offset", show_bytes(&r.lines[0])), Value::Null));
                        continue;
                    }
                    match std::str::from_utf8(&req.args[1]).ok().and_then(|s| s.parse::<usize>().ok()) {
                        Some(off) => got_reqs.push((name, off)),
                        None => out.push(Violation::new("C17/request-shape", format!("offset is not a number in {:?}", show_bytes(&r.lines[0])), Value::Null)),
                    }
                }
            }
            if got_reqs.len() > 1 {
                st.count("multi_chunk_loads");
            }
            // with a chunk size that varies during the load (another caller changes the binary
            // limit, or the server returns short pieces) the expected offsets follow from what the
            // server actually returned: offset[i+1] = offset[i] + bytes returned for request i
            let dynamic = !scn.server.chunk_pattern.is_empty() || scn.callers.iter().any(|c| c.ops.iter().any(|o| matches!(o, Op::Raw(l) if l.starts_with("binarylimit"))));
            let want_reqs = if dynamic {
                let mut v: Vec<(String, usize)> = Vec::new();
                let mut off = 0usize;
                let mut cur: Option<String> = None;
                for r in &t.server.transcript {
                    if r.kind != RecKind::Command {
                        continue;
                    }
                    let Ok(req) = tokenize(&r.lines[0]) else { continue };
                    let name = String::from_utf8_lossy(&req.name).into_owned();
                    if name != "readpicture" && name != "albumart" {
                        continue;
                    }
                    if req.args.first().map(|a| a.as_slice()) != Some(uri.as_bytes()) {
                        continue;
                    }
                    if cur.as_deref() != Some(name.as_str()) {
                        cur = Some(name.clone());
                        off = 0;
                    }
                    v.push((name, off));
                    let reply = &t.s2c[r.reply_start.min(t.s2c.len())..r.reply_end.min(t.s2c.len())];
                    let d = crate::mpdref::wire::ref_decode(reply);
                    off += d.responses.first().and_then(|x| x.frames.first()).and_then(|f| f.binary.as_ref()).map(|b| b.len()).unwrap_or(0);
                }
                // the names and the number of requests must still be what the static expectation
                // says up to chunking: same command sequence without repetitions
                let dedup = |v: &Vec<(String, usize)>| {
                    let mut o: Vec<String> = Vec::new();
                    for (n, _) in v {
                        if o.last() != Some(n) {
                            o.push(n.clone());
                        }
                    }
                    o
                };
                if dedup(&v) != dedup(&want_reqs) {
                    want_reqs.clone()
                } else {
                    v
                }
            } else {
                want_reqs.clone()
            };
            if got_reqs != want_reqs {
                let sig = if got_reqs.iter().map(|r| &r.0).collect::<Vec<_>>() != want_reqs.iter().map(|r| &r.0).collect::<Vec<_>>() { "C17/wrong-commands-or-fallback" } else { "C17/wrong-offsets" };
                out.push(Violation::new(sig, format!("requests {:?}, expected {:?} (limit {}, choices {:?})", &got_reqs[..got_reqs.len().min(12)], &want_reqs[..want_reqs.len().min(12)], scn.server.binary_limit, t.choice_names()), Value::Null));
            }
            let got_res = match &rec.outcome {
                Some(OpOutcome::Art(Ok(Some((b, m))))) => ArtExpect::Some(b.clone(), m.clone()),
                Some(OpOutcome::Art(Ok(None))) => ArtExpect::None,
                Some(OpOutcome::Art(Err(AErr::ErrorResponse { error, .. }))) => ArtExpect::Err(error.code),
                other => {
                    if t.fault.is_none() {
                        out.push(Violation::new("C17/unexpected-outcome", format!("album_art resolved with {:?}", other.as_ref().map(|o| o.short())), Value::Null));
                    }
                    continue;
                }
            };
            if got_res != want_res {
                let sig = match (&got_res, &want_res) {
                    (ArtExpect::Some(..), ArtExpect::Some(..)) => "C17/wrong-bytes-or-mime",
                    _ => "C17/wrong-result-kind",
                };
                let short = |e: &ArtExpect| match e {
                    ArtExpect::Some(b, m) => format!("Some({} bytes, hash {:x}, mime {m:?})", b.len(), hash64(b)),
                    other => format!("{other:?}"),
                };
                out.push(Violation::new(sig, format!("album_art returned {}, stored picture / expected result is {} (limit {})", short(&got_res), short(&want_res), scn.server.binary_limit), Value::Null));
            }
        }
    }
    // other callers still get their own replies, and the session stays legal
    out.extend(oracle_c01(scn, t, &mut ExploreStats::default()));
    out.extend(oracle_c05(scn, t, &mut ExploreStats::default()).into_iter().filter(|v| v.sig == "C05/line-during-idle" || v.sig == "C05/request-before-reply-read"));
    out
}

fn c17_scenario(name: &str, embedded: PicSource, cover: PicSource, limit: usize, explore: bool) -> Scenario {
    let mut callers = vec![CallerProg { ops: vec![Op::AlbumArt(ART_URI.into())], pipeline: false }];
    if explore {
        callers.push(CallerProg { ops: vec![Op::Raw("cmd B1".into())], pipeline: false });
    }
    let mut s = Scenario::new(name, callers);
    s.server.embedded = embedded;
    s.server.cover = cover;
    s.server.binary_limit = limit;
    s.max_steps = 400;
    if explore {
        s.notify_names = vec!["player"];
        s.notify_budget = 1;
        s.split_budget = 1;
    }
    s
}

fn c17_grid(tier: Tier) -> Vec<Scenario> {
    let mut v = Vec::new();
    let limits: &[usize] = tier.pick(&[1, 2, 3, 7, 4096, 5000], &[1, 2, 3, 7, 64, 4095, 4096, 4097, 5000]);
    for &l in limits {
        let mut sizes = vec![0usize, 1, l.saturating_sub(1), l, l + 1, 2 * l, 3 * l + 1];
        sizes.sort();
        sizes.dedup();
        for size in sizes {
            for mime in [Some("image/png".to_string()), None] {
                v.push(c17_scenario(&format!("C17-embedded-size{size}-limit{l}-mime{}", mime.is_some()), PicSource::Data(picture(size), mime.clone()), PicSource::Empty, l, false));
            }
            v.push(c17_scenario(&format!("C17-cover-size{size}-limit{l}-readpicture-empty"), PicSource::Empty, PicSource::Data(picture(size), None), l, false));
            v.push(c17_scenario(&format!("C17-cover-size{size}-limit{l}-readpicture-unknown"), PicSource::Ack(5), PicSource::Data(picture(size), None), l, false));
        }
    }
    v.push(c17_scenario("C17-embedded-size10000-limit5000", PicSource::Data(picture(10000), Some("image/jpeg".into())), PicSource::Empty, 5000, false));
    v.push(c17_scenario("C17-cover-size20000-limit8192", PicSource::Empty, PicSource::Data(picture(20000), None), 8192, false));
    // raised binary limits (MPD allows up to the output buffer size): chunks far beyond the receive buffer's
    // first doublings, the whole picture in one chunk and in a few (round 6: a cap on unparsed buffered bytes)
    // (round 8: a "preallocation cap" of 4 MiB applied to the expected size itself) pictures beyond 4 and 16 MiB
    for (size, limit) in [(65535usize, 65536usize), (65536, 65536), (65537, 65536), (70000, 131072), (150000, 262144), (250000, 100000), (1 << 20, 1 << 19), (3_000_000, 1 << 21), ((4 << 20) + 10, 1 << 20), ((16 << 20) + 3, 1 << 22)] {
        if tier == Tier::Quick && size > 300_000 && size != (4 << 20) + 10 {
            continue;
        }
        v.push(c17_scenario(&format!("C17-embedded-size{size}-limit{limit}"), PicSource::Data(picture(size), Some("image/jpeg".into())), PicSource::Empty, limit, false));
        v.push(c17_scenario(&format!("C17-cover-size{size}-limit{limit}"), PicSource::Ack(5), PicSource::Data(picture(size), None), limit, false));
    }
    for (size, limit, pat) in [(10usize, 4usize, vec![4usize, 1, 2]), (7, 3, vec![1]), (20, 8, vec![8, 8, 3, 1]), (13, 5, vec![5, 4, 3, 2, 1])] {
        let mut s = c17_scenario(&format!("C17-embedded-size{size}-limit{limit}-short-pieces"), PicSource::Data(picture(size), Some("image/png".into())), PicSource::Empty, limit, false);
        s.server.chunk_pattern = pat.clone();
        v.push(s);
        let mut s = c17_scenario(&format!("C17-cover-size{size}-limit{limit}-short-pieces"), PicSource::Empty, PicSource::Data(picture(size), None), limit, false);
        s.server.chunk_pattern = pat;
        v.push(s);
    }
    // several loads on one connection: each load is judged by the replies to ITS requests only
    {
        let pic_a = picture(9);
        let pic_b: Vec<u8> = picture(7).iter().map(|b| b ^ 0x55).collect();
        let behaviours: Vec<(&str, PicSource, PicSource)> = vec![
            ("unknown-readpicture", PicSource::Ack(5), PicSource::Data(pic_a.clone(), None)),
            ("embedded", PicSource::Data(pic_b.clone(), Some("image/png".into())), PicSource::Data(pic_a.clone(), None)),
            ("empty-readpicture", PicSource::Empty, PicSource::Data(pic_a.clone(), None)),
            ("readpicture-ack50", PicSource::Ack(50), PicSource::Data(pic_a.clone(), None)),
            ("neither", PicSource::Empty, PicSource::Empty),
        ];
        for (i, (n1, e1, c1)) in behaviours.iter().enumerate() {
            for (j, (n2, e2, c2)) in behaviours.iter().enumerate() {
                if i == j {
                    continue;
                }
                let mut s = Scenario::new(&format!("C17-two-loads-{n1}-then-{n2}"), vec![CallerProg { ops: vec![Op::AlbumArt("first song.flac".into()), Op::AlbumArt("second.flac".into())], pipeline: false }]);
                s.server.binary_limit = 4;
                s.server.per_uri = vec![("first song.flac".into(), e1.clone(), c1.clone()), ("second.flac".into(), e2.clone(), c2.clone())];
                s.max_steps = 400;
                v.push(s);
            }
        }
    }
    // the server fails in the middle of a load (after k chunks): the error is the result, whatever
    // was received before it
    for k in 1..=3usize {
        for code in [2u64, 50, 52] {
            let mut s = c17_scenario(&format!("C17-embedded-size10-limit3-fails-after-{k}-chunks-ack{code}"), PicSource::Data(picture(10), Some("image/png".into())), PicSource::Data(picture(4), None), 3, false);
            s.server.fail_after_chunks = Some((k, code));
            v.push(s);
            let mut s = c17_scenario(&format!("C17-cover-size10-limit3-fails-after-{k}-chunks-ack{code}"), PicSource::Ack(5), PicSource::Data(picture(10), None), 3, false);
            s.server.fail_after_chunks = Some((k, code));
            v.push(s);
        }
    }
    // the optional MIME type is given with the first chunk only
    for (size, limit) in [(10usize, 3usize), (2, 1), (9000, 4096)] {
        let mut s = c17_scenario(&format!("C17-embedded-size{size}-limit{limit}-mime-in-first-chunk-only"), PicSource::Data(picture(size), Some("image/webp".into())), PicSource::Empty, limit, false);
        s.server.mime_only_in_first_chunk = true;
        v.push(s);
    }
    // `readpicture` unknown to the server = ACK code 5, however the message is worded
    for (k, wording) in ["Unsupported command 'readpicture'", "Unknown command: readpicture", "", "unknown  command"].into_iter().enumerate() {
        let mut s = c17_scenario(&format!("C17-cover-after-unknown-readpicture-wording{k}"), PicSource::Ack(5), PicSource::Data(picture(5), None), 3, false);
        s.server.unknown_command_wording = Some(wording.to_string());
        v.push(s);
    }
    // (round 7) what the server calls itself and what it calls the picture's type are not the library's business:
    // greetings of other versions (older, newer, odd), MIME types in unusual spellings - returned verbatim
    for (k, version) in ["0.19.0", "0.20.23", "0.21.0", "0.22", "1.0.0", "2.20.0", "10.1", "0.24~git", "x"].into_iter().enumerate() {
        let mut s = c17_scenario(&format!("C17-embedded-size9-limit4-greeting-version-{k}"), PicSource::Data(picture(9), Some("image/png".into())), PicSource::Empty, 4, false);
        s.greeting = format!("OK MPD {version}\n").into_bytes();
        v.push(s);
        let mut s = c17_scenario(&format!("C17-cover-size9-limit4-greeting-version-{k}"), PicSource::Ack(5), PicSource::Data(picture(9), None), 4, false);
        s.greeting = format!("OK MPD {version}\n").into_bytes();
        v.push(s);
    }
    for (k, mime) in ["image/JPEG", "image/jpeg; charset=binary", " image/png ", "PNG", "application/octet-stream", "image/svg+xml", "-->", "\u{e9}/\u{e9}", "a"].into_iter().enumerate() {
        v.push(c17_scenario(&format!("C17-embedded-size9-limit4-mime-spelling-{k}"), PicSource::Data(picture(9), Some(mime.to_string())), PicSource::Empty, 4, false));
        v.push(c17_scenario(&format!("C17-embedded-size3-limit4-mime-spelling-{k}"), PicSource::Data(picture(3), Some(mime.to_string())), PicSource::Empty, 4, false));
    }
    v.push(c17_scenario("C17-neither", PicSource::Empty, PicSource::Empty, 8192, false));
    v.push(c17_scenario("C17-neither-readpicture-unknown", PicSource::Ack(5), PicSource::Empty, 8192, false));
    // every server error code of MPD's enum, on either command
    for code in [1u64, 2, 3, 4, 5, 50, 51, 52, 53, 54, 55, 56] {
        v.push(c17_scenario(&format!("C17-readpicture-ack{code}"), PicSource::Ack(code), PicSource::Data(picture(5), None), 3, false));
        v.push(c17_scenario(&format!("C17-albumart-ack{code}"), PicSource::Empty, PicSource::Ack(code), 3, false));
        v.push(c17_scenario(&format!("C17-both-ack{code}"), PicSource::Ack(5), PicSource::Ack(code), 3, false));
    }
    v
}

fn c17_explore_scenarios() -> Vec<Scenario> {
    let mut limit_change = c17_scenario("C17-explore-embedded-size11-limit4-other-caller-lowers-limit", PicSource::Data(picture(11), Some("image/png".into())), PicSource::Empty, 4, true);
    limit_change.callers[1] = CallerProg { ops: vec![Op::Raw("binarylimit 2".into()), Op::Raw("binarylimit 5".into())], pipeline: false };
    let mut short = c17_scenario("C17-explore-cover-size9-server-returns-short-pieces", PicSource::Ack(5), PicSource::Data(picture(9), None), 4, true);
    short.server.chunk_pattern = vec![4, 1, 3, 2];
    // two callers load different multi-chunk pictures at the same time: the chunk requests
    // interleave (A0 B0 A1 B1 ...), each caller gets its own picture
    let mut concurrent = Scenario::new(
        "C17-explore-two-callers-load-concurrently",
        vec![CallerProg { ops: vec![Op::AlbumArt("first song.flac".into())], pipeline: false }, CallerProg { ops: vec![Op::AlbumArt("second.flac".into())], pipeline: false }],
    );
    concurrent.server.binary_limit = 4;
    concurrent.server.per_uri = vec![
        ("first song.flac".into(), PicSource::Data(picture(11), Some("image/png".into())), PicSource::Empty),
        ("second.flac".into(), PicSource::Ack(5), PicSource::Data(picture(9).iter().map(|b| b ^ 0x55).collect(), None)),
    ];
    concurrent.max_steps = 400;
    concurrent.split_budget = 1;
    vec![
        limit_change,
        short,
        concurrent,
        c17_scenario("C17-explore-embedded-size7-limit3", PicSource::Data(picture(7), Some("image/png".into())), PicSource::Empty, 3, true),
        c17_scenario("C17-explore-cover-size5-limit2", PicSource::Ack(5), PicSource::Data(picture(5), None), 2, true),
    ]
}

pub fn run_c17(tier: Tier) -> i32 {
    let mut ctx = Ctx::new("C17", tier, "model_checking");
    ctx.assume("the simulated server serves readpicture / albumart like MPD: size, optional type, binary chunk of at most the binary limit starting at the requested offset; an absent embedded picture is an empty OK reply");
    let mut plans: Vec<Plan> = c17_grid(tier).into_iter().map(|scn| Plan { scn, bound: 0 }).collect();
    for scn in c17_explore_scenarios() {
        plans.push(Plan { scn, bound: tier.pick(2, 5) });
    }
    let grid = plans.len();
    let (mut cov, viol) = run_plans(
        &ctx,
        plans,
        &oracle_c17,
        Duration::from_secs(tier.pick(45, 280)),
        "grid: picture size in {0,1,L-1,L,L+1,2L,3L+1} x chunk limit L x {embedded with/without MIME, cover file after empty readpicture, cover file after unknown readpicture}, pictures larger than the receive buffer, neither source, every ACK code on either command - each on the default schedule; two grid points with a second caller, a notification and a split under all schedules within the deviation bound; non-trivial = album art loads whose request sequence and result were checked",
        &["album_art_loads_checked"],
    );
    cov.set("grid_points", json!(grid));
    finish(&ctx, cov, viol)
}

// =============================================================================================
// C18 (client half)

pub fn oracle_c18(scn: &Scenario, t: &Trace, st: &mut ExploreStats) -> Vec<Violation> {
    let mut out = Vec::new();
    let (pw, expects_pw) = match &scn.connect {
        ConnectMode::Plain | ConnectMode::PasswordOpt(None) => (String::new(), false),
        ConnectMode::Password(p) | ConnectMode::PasswordOpt(Some(p)) => (p.clone(), true),
    };
    let (lines, _rest) = split_lines(&t.c2s);
    let choices = t.choice_names();
    st.count("handshakes_checked");
    // what the server decided
    let verdict_ok = !expects_pw || scn.server.password.as_deref() == Some(pw.as_str());
    let fault = t.fault.as_ref().map(|f| f.0.clone());
    // the first line
    if expects_pw {
        if let Some(first) = lines.first() {
            match tokenize(first) {
                Ok(req) if req.name == b"password" && req.args == vec![pw.as_bytes().to_vec()] => {}
                other => out.push(Violation::new("C18/first-line-not-password", format!("first line written is {:?} (tokenized: {other:?}), expected `password <{pw}>`", show_bytes(first)), Value::Null)),
            }
        }
    }
    // idle only after the server's verdict has been read
    if expects_pw {
        let pw_rec = t.server.transcript.iter().find(|r| r.kind == RecKind::Password);
        for r in t.server.transcript.iter().filter(|r| r.kind == RecKind::Idle || r.kind == RecKind::Command || r.kind == RecKind::List) {
            let mark = t.read_pos_at_write.iter().copied().find(|(wl, _, _)| *wl >= r.c2s_end);
            match (pw_rec, mark) {
                (Some(p), Some((_, rp, _))) => {
                    if rp < p.reply_end || p.c2s_end > r.c2s_end {
                        out.push(Violation::new("C18/idle-before-password-verdict", format!("{:?} was written before the server's reply to the password had been read (choices {choices:?})", show_bytes(&r.lines[0])), Value::Null));
                    }
                }
                (None, _) => out.push(Violation::new("C18/idle-before-password", format!("{:?} was written but no password line reached the server first", show_bytes(&r.lines[0])), Value::Null)),
                _ => {}
            }
        }
    }
    let Some(result) = &t.connect_result else {
        // connect never completed: only acceptable if bytes are still missing (cannot happen after drain) or a fault hit
        if fault.is_none() {
            out.push(Violation::new("C18/connect-hangs", format!("connect did not complete although greeting and verdict were delivered (choices {choices:?})"), Value::Null));
        } else {
            out.push(Violation::new("C18/connect-hangs-after-fault", format!("connect did not complete after {:?} (choices {choices:?})", fault), Value::Null));
        }
        return out;
    };
    let greeting_version = String::from_utf8_lossy(&scn.greeting[7.min(scn.greeting.len())..scn.greeting.len().saturating_sub(1)]).into_owned();
    // did the fault hit the handshake (before the verdict was completely read)?
    let handshake_bytes = scn.greeting.len() + if expects_pw { t.server.transcript.iter().find(|r| r.kind == RecKind::Password).map(|r| r.reply_end - r.reply_start).unwrap_or(usize::MAX / 2) } else { 0 };
    let pos_of = |pred: &dyn Fn(&Obs) -> bool| t.log.iter().position(|o| pred(o));
    let connect_pos = pos_of(&|o| matches!(o, Obs::Connected(_) | Obs::ConnectFailed(_))).unwrap_or(usize::MAX);
    let fault_pos = fault.as_ref().and_then(|f| {
        let n = f.name();
        pos_of(&move |o| matches!(o, Obs::Ev { name, .. } if *name == n))
    });
    let fault_in_handshake = match &fault {
        // the stream was cut before the last byte of the verdict
        Some(Ev::Close(_)) => t.closed_at.map(|c| c < handshake_bytes).unwrap_or(false),
        // the malformed line takes the place of the verdict only if the server died before it saw the password
        Some(Ev::Garbage) => expects_pw && !t.server.transcript.iter().any(|r| r.kind == RecKind::Password),
        // reads fail from the moment of injection on
        Some(Ev::ReadErr) | Some(Ev::WriteErr) => fault_pos.map(|p| p < connect_pos).unwrap_or(false),
        _ => false,
    };
    match result {
        Ok(v) => {
            if !verdict_ok {
                out.push(Violation::new("C18/connected-despite-rejected-password", format!("connect succeeded although the server rejected the password (choices {choices:?})"), Value::Null));
            }
            if v != &greeting_version {
                out.push(Violation::new("C18/version-not-verbatim", format!("protocol_version() = {v:?}, greeting says {greeting_version:?}"), Value::Null));
            }
        }
        Err(e) => {
            let want = if fault_in_handshake {
                None // some protocol error; which one is C09/C10's business
            } else if !verdict_ok {
                Some("IncorrectPassword")
            } else {
                Some("<success>")
            };
            match want {
                Some("IncorrectPassword") if e == "IncorrectPassword" => {}
                None if e != "IncorrectPassword" => {}
                _ => out.push(Violation::new("C18/wrong-connect-result", format!("connect failed with {e}, expected {want:?} (choices {choices:?})"), Value::Null)),
            }
            // nothing further is ever written
            let allowed = if expects_pw { 1 } else { 0 };
            if lines.len() > allowed {
                out.push(Violation::new("C18/write-after-failed-handshake", format!("after the failed handshake ({e}) the client wrote {:?}", lines.iter().skip(allowed).map(|l| show_bytes(l)).collect::<Vec<_>>()), Value::Null));
            }
        }
    }
    // after a successful handshake the session is an ordinary legal session
    if matches!(result, Ok(_)) && t.fault.is_none() {
        out.extend(oracle_c05(scn, t, &mut ExploreStats::default()));
        out.extend(oracle_c01(scn, t, &mut ExploreStats::default()));
    }
    out
}

fn c18_scenario(name: &str, connect: ConnectMode, server_pw: Option<&str>, ack_code: u64, faults: bool, tier: Tier) -> Scenario {
    let mut s = Scenario::new(name, vec![CallerProg { ops: vec![Op::Raw("cmd A1".into())], pipeline: false }]);
    s.connect = connect;
    s.server.password = server_pw.map(|p| p.to_string());
    s.server.password_ack_code = ack_code;
    s.greeting_upfront = false;
    s.greeting = b"OK MPD 0.23.5 x\n".to_vec();
    s.split_budget = 2;
    s.split_menu = tier.pick(SplitMenu::Lines, SplitMenu::Bytes);
    if faults {
        s.faults = vec![FaultKind::Close, FaultKind::Garbage, FaultKind::ReadErr];
        s.fault_budget = 1;
        s.split_menu = SplitMenu::Bytes;
        s.split_budget = 1;
    }
    s
}

/// passwords at the edges of the argument encoder and of "is there a password at all": empty,
/// blank-edged, quote / backslash, non-ASCII space. The server compares the decoded argument with
/// its password byte for byte, so a client that trims, skips or re-escapes it is rejected.
fn c18_special_plans(tier: Tier) -> Vec<Plan> {
    let mut plans = Vec::new();
    for (k, pw) in ["", " ", "pw ", " pw", "tab\t", "nbsp\u{a0}", "ideographic\u{3000}", "q\"uote d", "back\\slash d", "cr\r"].into_iter().enumerate() {
        plans.push(Plan { scn: c18_scenario(&format!("C18-edge-password-{k}-accepted"), ConnectMode::Password(pw.into()), Some(pw), 3, false, tier), bound: 1 });
        plans.push(Plan { scn: c18_scenario(&format!("C18-edge-password-{k}-opt-accepted"), ConnectMode::PasswordOpt(Some(pw.into())), Some(pw), 3, false, tier), bound: 1 });
    }
    // an empty password is still a password: sent first, and its rejection is reported
    plans.push(Plan { scn: c18_scenario("C18-empty-password-rejected", ConnectMode::Password("".into()), Some("right"), 3, false, tier), bound: tier.pick(2, 3) });
    plans.push(Plan { scn: c18_scenario("C18-empty-password-opt-rejected", ConnectMode::PasswordOpt(Some("".into())), Some("right"), 4, false, tier), bound: 2 });
    plans
}

pub fn run_c18(tier: Tier) -> i32 {
    let mut ctx = Ctx::new("C18", tier, "model_checking");
    ctx.assume("greeting validity is defined by mpdref::wire::ref_greeting: `OK MPD ` + non-empty valid UTF-8 up to LF; bytes in the same read after the greeting are not examined");
    ctx.assume("a server that requires a password answers every other command, idle included, with ACK 4 until the password was accepted");
    // protocol half
    let proto = c18_proto(tier);
    // client half
    let pw = "pw x\"y";
    let mut plans = vec![
        Plan { scn: c18_scenario("C18-plain", ConnectMode::Plain, None, 3, false, tier), bound: tier.pick(3, 4) },
        Plan { scn: c18_scenario("C18-opt-none", ConnectMode::PasswordOpt(None), None, 3, false, tier), bound: 2 },
        Plan { scn: c18_scenario("C18-password-accepted", ConnectMode::Password("pw x".into()), Some("pw x"), 3, false, tier), bound: tier.pick(3, 4) },
        Plan { scn: c18_scenario("C18-password-opt-accepted", ConnectMode::PasswordOpt(Some("secret".into())), Some("secret"), 3, false, tier), bound: 2 },
        Plan { scn: c18_scenario("C18-password-with-blank-and-quote", ConnectMode::Password(pw.into()), Some(pw), 3, false, tier), bound: 1 },
        Plan { scn: c18_scenario("C18-password-faults", ConnectMode::Password("pw x".into()), Some("pw x"), 3, true, tier), bound: tier.pick(2, 3) },
        Plan { scn: c18_scenario("C18-plain-faults", ConnectMode::Plain, None, 3, true, tier), bound: 2 },
    ];
    for code in [1u64, 2, 3, 4, 5, 50] {
        plans.push(Plan { scn: c18_scenario(&format!("C18-password-rejected-ack{code}"), ConnectMode::Password("wrong".into()), Some("right"), code, false, tier), bound: tier.pick(2, 3) });
    }
    plans.push(Plan { scn: c18_scenario("C18-password-opt-rejected", ConnectMode::PasswordOpt(Some("wrong".into())), Some("right"), 3, false, tier), bound: 2 });
    plans.push(Plan { scn: c18_scenario("C18-password-rejected-faults", ConnectMode::Password("wrong".into()), Some("right"), 3, true, tier), bound: 2 });
    plans.extend(c18_special_plans(tier));
    let (mut cov, mut viol) = run_plans(
        &ctx,
        plans,
        &oracle_c18,
        Duration::from_secs(tier.pick(40, 240)),
        "protocol half: every greeting `OK MPD `+version over 7 byte classes up to length 3/4, wrong prefixes, overlong versions, each truncated at every position, under all segmentations (short) / <=2 cuts, both flavours; client half: connect / connect_with_password / connect_with_password_opt x {accepted, rejected with 6 ACK codes, close at every offset, garbage, read error} x every split of greeting and verdict within the deviation bound; non-trivial = handshakes checked + greeting truncations",
        &["handshakes_checked"],
    );
    cov.evaluations += proto.sessions;
    cov.transitions += proto.reads;
    cov.states += proto.streams;
    cov.traces += proto.sessions;
    cov.distinct_nontrivial += proto.nontrivial;
    cov.set("protocol_half", json!({"greetings": proto.streams, "connect_sessions": proto.sessions, "truncation_points": proto.nontrivial, "distinct_outcomes": proto.outcomes.len()}));
    for s in proto.samples.iter().take(2) {
        cov.samples.push(s.clone());
    }
    viol.merge(proto.viol);
    finish(&ctx, cov, viol)
}

// =============================================================================================
// replay

fn all_scenarios(tier: Tier) -> Vec<Scenario> {
    let mut v = Vec::new();
    for n in 0..=5usize {
        v.push(c13_scenario(Op::ProbeVec(probe_ids(n)), n == 3));
    }
    for n in 1..=8usize {
        v.push(c13_scenario(Op::ProbeTuple(probe_ids(n)), n == 2 || n == 8));
    }
    {
        let mut s = Scenario::new(
            "C13-cancelled-list-then-tuple",
            vec![CallerProg { ops: vec![Op::ProbeVec(vec![1, 2, 3]), Op::ProbeTuple(vec![21, 22])], pipeline: true }, CallerProg { ops: vec![Op::Raw("cmd B1".into())], pipeline: false }],
        );
        s.cancel_budget = 1;
        s.split_budget = 1;
        v.push(s);
    }
    for (n, chunk) in [(1usize, 1usize), (2, 1), (3, 7), (5, 16), (8, 40)] {
        v.push(crate::props::loopprops::with_short_writes(c13_scenario(Op::ProbeVec(probe_ids(n.min(5))), false), chunk));
        v.push(crate::props::loopprops::with_short_writes(c13_scenario(Op::ProbeTuple(probe_ids(n)), false), chunk));
    }
    v.extend(c13_special_plans(tier).into_iter().map(|p| p.scn));
    v.extend(c17_grid(tier));
    v.extend(c17_explore_scenarios());
    let pw = "pw x\"y";
    v.push(c18_scenario("C18-plain", ConnectMode::Plain, None, 3, false, tier));
    v.push(c18_scenario("C18-opt-none", ConnectMode::PasswordOpt(None), None, 3, false, tier));
    v.push(c18_scenario("C18-password-accepted", ConnectMode::Password("pw x".into()), Some("pw x"), 3, false, tier));
    v.push(c18_scenario("C18-password-opt-accepted", ConnectMode::PasswordOpt(Some("secret".into())), Some("secret"), 3, false, tier));
    v.push(c18_scenario("C18-password-with-blank-and-quote", ConnectMode::Password(pw.into()), Some(pw), 3, false, tier));
    v.push(c18_scenario("C18-password-faults", ConnectMode::Password("pw x".into()), Some("pw x"), 3, true, tier));
    v.push(c18_scenario("C18-plain-faults", ConnectMode::Plain, None, 3, true, tier));
    for code in [1u64, 2, 3, 4, 5, 50] {
        v.push(c18_scenario(&format!("C18-password-rejected-ack{code}"), ConnectMode::Password("wrong".into()), Some("right"), code, false, tier));
    }
    v.push(c18_scenario("C18-password-opt-rejected", ConnectMode::PasswordOpt(Some("wrong".into())), Some("right"), 3, false, tier));
    v.push(c18_scenario("C18-password-rejected-faults", ConnectMode::Password("wrong".into()), Some("right"), 3, true, tier));
    v.extend(c18_special_plans(tier).into_iter().map(|p| p.scn));
    v
}

pub fn replay(id: &str, case: &Value) -> i32 {
    if case["kind"].as_str() == Some("greeting") {
        return crate::props::proto::replay(id, case);
    }
    if case["kind"].as_str() == Some("vec-length") {
        use mpd_client::commands::CommandList as _;
        let n = case["n"].as_u64().unwrap_or(0) as usize;
        let k = case["k"].as_u64().unwrap_or(0) as usize;
        let frame = crate::props::c12::make_frames(&[crate::mpdref::wire::AFrame::new(&[("echo", "probe 1")])], false).remove(0);
        let list: Vec<Probe> = (0..n).map(|i| Probe(i as u32)).collect();
        let r = catch(|| list.responses((0..k).map(|_| frame.clone()).collect()));
        println!("replay C13: Vec list of {n} commands answered with {k} frames -> {:?}", r.as_ref().map(|r| r.as_ref().map(|v| v.len()).map_err(|e| e.to_string())));
        return match r {
            Ok(Ok(v)) if v.len() != n => {
                println!("replay: VIOLATION");
                1
            }
            _ => {
                println!("replay: property holds on this case");
                0
            }
        };
    }
    if case["kind"].as_str() == Some("raw") {
        let mut v = Violations::default();
        c13_raw(&mut v);
        println!("replay C13: all raw list build recipes re-run, {} violation(s)", v.total());
        return if v.is_empty() { 0 } else { 1 };
    }
    let name = case["scenario"]["name"].as_str().unwrap_or("");
    let names: Vec<String> = case["choices"].as_array().map(|a| a.iter().filter_map(|x| x.as_str().map(|s| s.to_string())).collect()).unwrap_or_default();
    let scn = [Tier::Quick, Tier::Thorough].iter().find_map(|t| all_scenarios(*t).into_iter().find(|s| s.name == name && (case["scenario"].get("split_menu").is_none() || s.to_json()["split_menu"] == case["scenario"]["split_menu"])));
    let Some(scn) = scn else {
        println!("replay: unknown scenario {name}");
        return 2;
    };
    println!("replay {id}: scenario {} choices {:?}", scn.name, names);
    let oracle: &Oracle = match id {
        "C13" => &oracle_c13,
        "C17" => &oracle_c17,
        "C18" => &oracle_c18,
        _ => return 2,
    };
    replay_names(&scn, names, oracle)
}
