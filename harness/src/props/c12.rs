//! C12 — typed response conversion is total: never panics on any server reply.
//!
//! For every predefined command with a typed response and for typed command lists, field lists are
//! enumerated (raw lists over a per-command key pool x a value pool of boundary spellings, and a
//! valid base reply with every single edit and pairs of edits), pushed through the real parser,
//! converted, and every public accessor / iterator of the result is driven; everything runs
//! inside catch_unwind. Built and run twice: default features and `chrono`.

use mpd_client::{
    commands::{self as cmds, Command, CommandList},
    protocol::response::Frame,
    tag::Tag,
};
use rayon::prelude::*;
use serde_json::{json, Value};

use crate::{
    common::*,
    io::{parse_responses, parse_responses_checked},
    mpdref::wire::{encode_frame, AFrame, BinPos},
};

pub const VALUES: &[&str] = &[
    "", "0", "1", "-1", "255", "256", "4294967296", "18446744073709551615", "18446744073709551616", "1e19", "1e20", "1e400", "nan", "inf", "-0", "0.0005", "1:2", ":", "a=b", "=", "x", "oneshot", "play",
    "2020-06-12T17:53:00Z", "2020-13-45T99:99:99Z", "\u{e9}", "1.5-3.5", "1.5-", "-", "1e19-1e19",
    // long / odd decimal spellings
    "12.3450000000", "3.00000000001", "0.0000000001", "1.000000000000000000001", "1.", ".5", "1e-9", "4294967295.999999999", "0x10", "1_000", " 1", "1 ", "+1", "1.5e3", "00000000000000000000001",
    // ranges that run backwards or are degenerate
    "5.000-1.000", "3.5-1.5", "2-2", "0-0", "1-0.999",
    // multi-byte text around the separators the typed layer splits at (byte vs. character offsets)
    "\u{e9}=x", "\u{8a55}\u{4fa1}=5", "x=\u{e9}", "\u{e9}:\u{e9}", "1.\u{e9}-2",
    // well-formed, in-range timestamps that name no real instant (calendar, leap second, hour 24)
    "2021-02-30T10:00:00Z", "2021-02-29T00:00:00Z", "1900-02-29T00:00:00Z", "2021-04-31T00:00:00Z", "2020-06-30T23:59:60Z", "2020-01-01T24:00:00Z", "0000-01-01T00:00:00Z", "2020-01-01T00:00:00+99:00",
];
pub const SMALL_VALUES: &[&str] = &["", "0", "1", "18446744073709551616", "x", "1:2", "a=b", "1.5-"];

pub fn long_values() -> Vec<String> {
    let mut out = Vec::new();
    for clip in [8usize, 16, 24, 32, 48, 64, 80, 100, 128, 255, 256, 512, 1024, 4096] {
        for shift in 0..4usize {
            for ch in ["\u{e4}", "\u{4fa1}", "\u{1d11e}"] {
                out.push(format!("{}{}", "x".repeat(shift), ch.repeat((clip + 8) / ch.len() + 1)));
            }
        }
        out.push("x".repeat(clip + 1));
        out.push("9".repeat(clip + 1));
        out.push(format!("{}=v", "k".repeat(clip)));
        out.push(format!("1:{}", "2".repeat(clip)));
    }
    out
}

type Run = Box<dyn Fn(Vec<Frame>) -> Result<(), String> + Sync + Send>;

pub struct Decoder {
    pub name: &'static str,
    pub keys: Vec<&'static str>,
    pub base: Vec<(&'static str, &'static str)>,
    pub binary: bool,
    /// number of frames the conversion takes (1 for single commands)
    pub frames: usize,
    pub run: Run,
}

fn drive_timestamp(t: &mpd_client::responses::Timestamp) {
    let _ = t.raw().len();
    let _ = t == t;
    let _ = t.cmp(t);
    #[cfg(feature = "chrono")]
    {
        let d = t.chrono_datetime();
        let _ = *t == d;
        let _ = t.partial_cmp(&d);
    }
}

fn drive_song(s: &mpd_client::responses::Song) {
    let _ = s.file_path();
    let _ = s.artists().len();
    let _ = s.album_artists().len();
    let _ = s.album();
    let _ = s.title();
    let _ = s.number();
    let _ = format!("{s:?}");
    if let Some(t) = &s.last_modified {
        drive_timestamp(t);
    }
    for (k, v) in &s.tags {
        let _ = (format!("{k:?}"), v.len());
    }
}

fn single<C, F>(name: &'static str, keys: &[&'static str], base: &[(&'static str, &'static str)], binary: bool, make: fn() -> C, drive: F) -> Decoder
where
    C: Command + 'static,
    F: Fn(C::Response) + Sync + Send + 'static,
{
    Decoder {
        name,
        keys: keys.to_vec(),
        base: base.to_vec(),
        binary,
        frames: 1,
        run: Box::new(move |mut frames: Vec<Frame>| {
            let frame = frames.pop().expect("one frame");
            match make().response(frame) {
                Ok(v) => {
                    drive(v);
                    Ok(())
                }
                Err(e) => {
                    let _ = e.to_string();
                    let _ = format!("{e:?}");
                    let _ = std::error::Error::source(&e).map(|s| s.to_string());
                    Err(e.to_string())
                }
            }
        }),
    }
}

const SONG_KEYS: &[&str] = &["file", "directory", "playlist", "Last-Modified", "duration", "Time", "Range", "Format", "Prio", "Pos", "Id", "Title", "Artist", "Track", "Disc", "Foo", "FILE", "Duration", "unrelated"];
const SONG_BASE: &[(&str, &str)] = &[
    ("file", "a.flac"),
    ("Last-Modified", "2020-06-12T17:53:00Z"),
    ("Format", "44100:16:2"),
    ("Artist", "X"),
    ("Title", "T"),
    ("Track", "3"),
    ("Disc", "1"),
    ("Time", "10"),
    ("duration", "10.500"),
    ("Range", "1.5-3.5"),
    ("Prio", "2"),
    ("Pos", "0"),
    ("Id", "1"),
    ("file", "b.mp3"),
    ("Pos", "1"),
    ("Id", "2"),
];

const STATUS_KEYS: &[&str] = &[
    "volume", "state", "repeat", "random", "consume", "single", "playlist", "playlistlength", "song", "songid", "nextsong", "nextsongid", "elapsed", "duration", "time", "Time", "bitrate", "xfade", "updating_db", "update_job", "error",
    "partition", "audio", "State", "unrelated", "Title",
];
const STATUS_BASE: &[(&str, &str)] = &[
    ("volume", "50"),
    ("repeat", "0"),
    ("random", "1"),
    ("single", "0"),
    ("consume", "0"),
    ("partition", "default"),
    ("playlist", "2"),
    ("playlistlength", "3"),
    ("state", "play"),
    ("song", "1"),
    ("songid", "2"),
    ("time", "3:200"),
    ("elapsed", "3.500"),
    ("bitrate", "320"),
    ("duration", "200.000"),
    ("audio", "44100:16:2"),
    ("nextsong", "2"),
    ("nextsongid", "3"),
    ("xfade", "5"),
    ("updating_db", "7"),
    ("error", "boom"),
];

fn drive_list0(l: mpd_client::responses::List<0>) {
    let _ = l.values().collect::<Vec<_>>();
    let _ = l.values().size_hint();
    let _ = l.values().count();
    let _ = l.values().last();
    let _ = l.values().nth(1);
    let _ = l.values().nth_back(1);
    let _ = l.values().rev().collect::<Vec<_>>();
    let _ = (&l).into_iter().len();
    let _ = l.grouped_values().collect::<Vec<_>>();
    let _ = l.grouped_by().len();
    let _ = l.clone().into_raw_values();
    let it = l.clone().into_iter();
    let _ = it.size_hint();
    let _ = l.clone().into_iter().rev().collect::<Vec<_>>();
    let _ = l.clone().into_iter().nth(1);
    let _ = l.clone().into_iter().nth_back(0);
    let _ = l.clone().into_iter().last();
    let _ = l.into_iter().count();
}

fn drive_list_n<const N: usize>(l: mpd_client::responses::List<N>) {
    let _ = l.grouped_values().collect::<Vec<_>>();
    let mut it = l.grouped_values();
    let _ = it.next();
    let _ = it.clone().count();
    let _ = l.grouped_by().len();
    let _ = format!("{l:?}");
    let _ = l.into_raw_values();
}

pub fn decoders() -> Vec<Decoder> {
    let mut v: Vec<Decoder> = Vec::new();
    v.push(single("status", STATUS_KEYS, STATUS_BASE, false, || cmds::Status, |s| drop(format!("{s:?}"))));
    v.push(single(
        "stats",
        &["artists", "albums", "songs", "uptime", "playtime", "db_playtime", "db_update", "Songs", "unrelated"],
        &[("uptime", "100"), ("playtime", "50"), ("artists", "3"), ("albums", "4"), ("songs", "5"), ("db_playtime", "600"), ("db_update", "1600000000")],
        false,
        || cmds::Stats,
        |s| drop(format!("{s:?}")),
    ));
    v.push(single("replay_gain_status", &["replay_gain_mode", "Replay_gain_mode", "unrelated"], &[("replay_gain_mode", "album")], false, || cmds::ReplayGainStatus, |s| drop(format!("{s:?}"))));
    v.push(single("playlistinfo", SONG_KEYS, SONG_BASE, false, || cmds::Queue, |songs| songs.iter().for_each(|s| drive_song(&s.song))));
    v.push(single("playlistinfo-range", SONG_KEYS, SONG_BASE, false, || cmds::Queue::range(cmds::SongPosition(0)..cmds::SongPosition(2)), |songs| songs.iter().for_each(|s| drive_song(&s.song))));
    v.push(single("currentsong", SONG_KEYS, &SONG_BASE[..13], false, || cmds::CurrentSong, |s| {
        if let Some(s) = s {
            drive_song(&s.song)
        }
    }));
    v.push(single("find", SONG_KEYS, SONG_BASE, false, || cmds::Find::new(mpd_client::filter::Filter::tag(Tag::Artist, "x")), |songs| songs.iter().for_each(drive_song)));
    v.push(single("listplaylistinfo", SONG_KEYS, SONG_BASE, false, || cmds::GetPlaylist("p"), |songs| songs.iter().for_each(drive_song)));
    v.push(single("listallinfo", SONG_KEYS, SONG_BASE, false, cmds::ListAllIn::root, |songs| songs.iter().for_each(drive_song)));
    v.push(single(
        "listplaylists",
        &["playlist", "Last-Modified", "Playlist", "unrelated"],
        &[("playlist", "a"), ("Last-Modified", "2020-06-12T17:53:00Z"), ("playlist", "b"), ("Last-Modified", "2021-01-01T00:00:00Z")],
        false,
        || cmds::GetPlaylists,
        |ps| {
            for p in &ps {
                drive_timestamp(&p.last_modified);
                let _ = format!("{p:?}");
            }
        },
    ));
    v.push(single("tagtypes", &["tagtype", "Tagtype", "unrelated"], &[("tagtype", "Artist"), ("tagtype", "MUSICBRAINZ_TRACKID")], false, || cmds::GetEnabledTagTypes, |t| drop(format!("{t:?}"))));
    v.push(single("addid", &["Id", "id", "unrelated"], &[("Id", "7")], false, || cmds::Add::uri("x"), |id| drop(format!("{id:?}"))));
    const LIST_KEYS: &[&str] = &["Album", "Artist", "AlbumArtist", "Title", "album", "Foo", "unrelated", "Last-Modified"];
    v.push(single("list", LIST_KEYS, &[("Album", "a"), ("Album", "b")], false, || cmds::List::new(Tag::Album), drive_list0));
    v.push(single(
        "list-group1",
        LIST_KEYS,
        &[("Artist", "x"), ("Album", "a"), ("Album", "b"), ("Artist", "y"), ("Album", "c")],
        false,
        || cmds::List::new(Tag::Album).group_by([Tag::Artist]),
        drive_list_n::<1>,
    ));
    v.push(single(
        "list-group2",
        LIST_KEYS,
        &[("AlbumArtist", "x"), ("Album", "a"), ("Title", "t1"), ("Title", "t2"), ("Album", "b"), ("Title", "t3")],
        false,
        || cmds::List::new(Tag::Title).group_by([Tag::AlbumArtist, Tag::Album]),
        drive_list_n::<2>,
    ));
    v.push(single("count", &["songs", "playtime", "Songs", "unrelated"], &[("songs", "3"), ("playtime", "600")], false, || cmds::Count::new(mpd_client::filter::Filter::tag(Tag::Artist, "x")), |c| drop(format!("{c:?}"))));
    v.push(single(
        "count-group",
        &["Album", "songs", "playtime", "album", "Artist", "unrelated"],
        &[("Album", "a"), ("songs", "1"), ("playtime", "10"), ("Album", "b"), ("playtime", "20"), ("songs", "2")],
        false,
        || cmds::CountGrouped::new(Tag::Album),
        |c| drop(format!("{c:?}")),
    ));
    v.push(single("albumart", &["size", "type", "Size", "unrelated"], &[("size", "6")], true, || cmds::AlbumArt::new("x"), |a| drop(format!("{a:?}"))));
    v.push(single("readpicture", &["size", "type", "Size", "unrelated"], &[("size", "6"), ("type", "image/png")], true, || cmds::AlbumArtEmbedded::new("x"), |a| drop(format!("{a:?}"))));
    v.push(single("sticker-get", &["sticker", "Sticker", "file", "unrelated"], &[("sticker", "rating=5")], false, || cmds::StickerGet::new("u", "rating"), |s| drop(String::from(s))));
    v.push(single("sticker-list", &["sticker", "Sticker", "file", "unrelated"], &[("sticker", "a=1"), ("sticker", "b=x=y")], false, || cmds::StickerList::new("u"), |s| drop(std::collections::HashMap::from(s))));
    v.push(single(
        "sticker-find",
        &["sticker", "file", "File", "unrelated"],
        &[("file", "a"), ("sticker", "r=1"), ("file", "b"), ("sticker", "r=2")],
        false,
        || cmds::StickerFind::new("u", "r"),
        |s| drop(format!("{s:?}")),
    ));
    v.push(single("update", &["updating_db", "Updating_db", "unrelated"], &[("updating_db", "3")], false, cmds::Update::new, |n| drop(n)));
    v.push(single("rescan", &["updating_db", "unrelated"], &[("updating_db", "3")], false, cmds::Rescan::new, |n| drop(n)));
    v.push(single("readmessages", &["channel", "message", "Channel", "unrelated"], &[("channel", "c"), ("message", "m"), ("channel", "d"), ("message", "n")], false, || cmds::ReadChannelMessages, |m| drop(m)));
    v.push(single("channels", &["channel", "Channel", "unrelated"], &[("channel", "c"), ("channel", "d")], false, || cmds::ListChannels, |m| drop(m)));
    v.push(single("ping", &["unrelated"], &[], false, || cmds::Ping, |_| ()));
    v.push(single("setvol", &["unrelated"], &[], false, || cmds::SetVolume(3), |_| ()));
    v
}

// ---- typed command lists: every frame count 0..=N+1 ---------------------------------------

fn stats_frame() -> Frame {
    make_frames(&[AFrame::new(&[("uptime", "1"), ("playtime", "1"), ("artists", "1"), ("albums", "1"), ("songs", "1"), ("db_playtime", "1"), ("db_update", "1")])], false).remove(0)
}

/// returns (shape name, commands, frames given, panic message if any, Ok/Err)
pub fn list_shape_cases() -> Vec<(String, usize, usize, Result<Result<(), String>, String>)> {
    let mut out = Vec::new();
    let f = stats_frame();
    for n in 0..=5usize {
        for k in 0..=n + 1 {
            let frames: Vec<Frame> = (0..k).map(|_| f.clone()).collect();
            let r = catch(|| {
                let list: Vec<cmds::Stats> = (0..n).map(|_| cmds::Stats).collect();
                list.responses(frames).map(|v| drop(v)).map_err(|e| e.to_string())
            });
            out.push((format!("Vec<Stats> of {n}"), n, k, r));
        }
    }
    macro_rules! tuple_case {
        ($n:expr, $($c:expr),+) => {
            for k in 0..=$n + 1 {
                let frames: Vec<Frame> = (0..k).map(|_| f.clone()).collect();
                let r = catch(|| ($($c,)+).responses(frames).map(|v| drop(v)).map_err(|e| e.to_string()));
                out.push((format!("tuple of {}", $n), $n, k, r));
            }
        };
    }
    use cmds::Stats as S;
    tuple_case!(1usize, S);
    tuple_case!(2usize, S, S);
    tuple_case!(3usize, S, S, S);
    tuple_case!(4usize, S, S, S, S);
    tuple_case!(5usize, S, S, S, S, S);
    tuple_case!(6usize, S, S, S, S, S, S);
    tuple_case!(7usize, S, S, S, S, S, S, S);
    tuple_case!(8usize, S, S, S, S, S, S, S, S);
    out
}

// ---- enumeration ---------------------------------------------------------------------------

pub fn make_frames(frames: &[AFrame], allow_fail: bool) -> Vec<Frame> {
    let mut bytes = Vec::new();
    if frames.len() == 1 {
        encode_frame(&frames[0], BinPos::Last, &mut bytes);
        bytes.extend_from_slice(b"OK\n");
    } else {
        for f in frames {
            encode_frame(f, BinPos::Last, &mut bytes);
            bytes.extend_from_slice(b"list_OK\n");
        }
        bytes.extend_from_slice(b"OK\n");
    }
    let mut rs = parse_responses(&bytes);
    if rs.len() != 1 {
        if allow_fail {
            return vec![];
        }
        machinery_error(&format!("C12: parser rejected harness frame {:?}", show_bytes(&bytes)));
    }
    rs.remove(0).into_iter().filter_map(|r| r.ok()).collect()
}

#[derive(Default)]
pub struct Acc {
    pub conversions: u64,
    pub ok: u64,
    pub err: u64,
    pub field_lists: u64,
    pub nontrivial: u64,
    pub viol: Violations,
}
impl Acc {
    pub fn merge(mut self, o: Acc) -> Acc {
        self.conversions += o.conversions;
        self.ok += o.ok;
        self.err += o.err;
        self.field_lists += o.field_lists;
        self.nontrivial += o.nontrivial;
        self.viol.merge(o.viol);
        self
    }
}

fn feature() -> &'static str {
    if cfg!(feature = "chrono") {
        "chrono"
    } else {
        "default"
    }
}

fn panic_sig(decoder: &str, msg: &str) -> String {
    let site = msg.rsplit('@').next().unwrap_or("").trim();
    let file = site.rsplit('/').next().unwrap_or(site);
    format!("C12/panic-{decoder}-{}", file.replace(':', "_"))
}

fn convert(d: &Decoder, fields: &[(String, String)], binary: Option<&[u8]>, acc: &mut Acc, verbose: bool) {
    let af = AFrame { fields: fields.to_vec(), binary: binary.map(|b| b.to_vec()) };
    let frames = make_frames(&[af], false);
    acc.conversions += 1;
    match catch(|| (d.run)(frames)) {
        Ok(Ok(())) => {
            acc.ok += 1;
            if verbose {
                println!("  [{}] {} -> value", feature(), d.name);
            }
        }
        Ok(Err(e)) => {
            acc.err += 1;
            if verbose {
                println!("  [{}] {} -> typed error: {e}", feature(), d.name);
            }
        }
        Err(msg) => {
            if verbose {
                println!("  [{}] {} -> PANIC {msg}", feature(), d.name);
            }
            acc.viol.push(Violation::new(
                panic_sig(d.name, &msg),
                format!("[{}] converting the reply {:?} for `{}` panics: {msg}", feature(), fields.iter().map(|(k, v)| format!("{k}: {v}")).collect::<Vec<_>>(), d.name),
                json!({"kind": "decoder", "decoder": d.name, "fields": fields, "binary": binary.is_some(), "feature": feature()}),
            ));
        }
    }
}

fn enumerate_decoder(d: &Decoder, tier: Tier) -> Acc {
    let mut acc = Acc::default();
    let bin: Vec<Option<&[u8]>> = if d.binary { vec![None, Some(b"abc"), Some(b"")] } else { vec![None] };
    let pairs: Vec<(String, String)> = d.keys.iter().flat_map(|k| VALUES.iter().map(move |v| (k.to_string(), v.to_string()))).collect();
    let small_pairs: Vec<(String, String)> = d.keys.iter().take(12).flat_map(|k| SMALL_VALUES.iter().map(move |v| (k.to_string(), v.to_string()))).collect();
    // (A) raw lists
    for b in &bin {
        convert(d, &[], *b, &mut acc, false);
        acc.field_lists += 1;
        for p in &pairs {
            convert(d, &[p.clone()], *b, &mut acc, false);
            acc.field_lists += 1;
        }
    }
    let len2_pairs = if pairs.len() > 400 && tier == Tier::Quick { &small_pairs } else { &pairs };
    for p in &pairs {
        for q in len2_pairs {
            convert(d, &[p.clone(), q.clone()], None, &mut acc, false);
            acc.field_lists += 1;
        }
    }
    if tier == Tier::Thorough {
        let sp: Vec<&(String, String)> = small_pairs.iter().take(64).collect();
        for p in &sp {
            for q in &sp {
                for r in &sp {
                    convert(d, &[(*p).clone(), (*q).clone(), (*r).clone()], None, &mut acc, false);
                    acc.field_lists += 1;
                }
            }
        }
    }
    // (B) valid base reply + edits
    let base: Vec<(String, String)> = d.base.iter().map(|(k, v)| (k.to_string(), v.to_string())).collect();
    if !base.is_empty() {
        let base_bin: Option<&[u8]> = if d.binary { Some(b"abcdef") } else { None };
        // the base itself must convert (otherwise the edits explore nothing)
        let before = acc.ok;
        convert(d, &base, base_bin, &mut acc, false);
        if acc.ok == before && acc.viol.is_empty() {
            machinery_error(&format!("C12: the valid base reply for `{}` does not convert", d.name));
        }
        let edits = |b: &Vec<(String, String)>, vals: &[&str], every_pos: bool| -> Vec<Vec<(String, String)>> {
            let mut out = Vec::new();
            for i in 0..b.len() {
                let mut x = b.clone();
                x.remove(i);
                out.push(x);
                for v in vals {
                    let mut x = b.clone();
                    x[i].1 = v.to_string();
                    out.push(x);
                }
                // swap with the next field (order permutation)
                if i + 1 < b.len() {
                    let mut x = b.clone();
                    x.swap(i, i + 1);
                    out.push(x);
                }
            }
            for k in &d.keys {
                for v in vals {
                    let positions: Vec<usize> = if every_pos { (0..=b.len()).collect() } else { vec![0, b.len() / 2, b.len()] };
                    for pos in positions {
                        let mut x = b.clone();
                        x.insert(pos, (k.to_string(), v.to_string()));
                        out.push(x);
                    }
                }
            }
            out
        };
        let firsts = edits(&base, VALUES, true);
        for e in &firsts {
            convert(d, e, base_bin, &mut acc, false);
            acc.field_lists += 1;
            acc.nontrivial += 1;
        }
        // long values (round 6: an error path that clips the offending value at a byte offset): ASCII and
        // multi-byte text of 2-, 3- and 4-byte characters, shifted so that a character straddles every
        // likely clip length; as a single field and as an edit of the valid base reply
        let longs = long_values();
        let long_refs: Vec<&str> = longs.iter().map(|s| s.as_str()).collect();
        for k in &d.keys {
            for v in &long_refs {
                convert(d, &[(k.to_string(), v.to_string())], None, &mut acc, false);
                acc.field_lists += 1;
            }
        }
        for i in 0..base.len() {
            for v in &long_refs {
                let mut x = base.clone();
                x[i].1 = v.to_string();
                convert(d, &x, base_bin, &mut acc, false);
                acc.field_lists += 1;
                acc.nontrivial += 1;
            }
        }
        // pairs of edits: second edit over the small value pool
        let step = tier.pick(if firsts.len() > 1500 { 23 } else { 5 }, if firsts.len() > 1500 { 4 } else { 1 });
        for e in firsts.iter().step_by(step) {
            for e2 in edits(e, tier.pick(&SMALL_VALUES[..4], SMALL_VALUES), false).iter().step_by(tier.pick(3, 2)) {
                convert(d, e2, base_bin, &mut acc, false);
                acc.field_lists += 1;
                acc.nontrivial += 1;
            }
        }
    }
    acc
}

/// keys outside today's parser alphabet: whatever the parser lets through must not panic the
/// decoders that treat keys as tags
fn key_alphabet_sweep(acc: &mut Acc) {
    let mut keys = strings_over(&["a", "Z", "_", "-", "0", " ", "\u{e9}", ".", ":"], 3);
    // (round 7) long names: every length 20..=40 and some far beyond (a stack buffer sized for the longest known
    // tag), plain and as a known name with a tail
    for n in (20usize..=40).chain([63, 64, 65, 127, 128, 129, 255, 256, 257, 1000, 5000]) {
        keys.push("k".repeat(n));
        keys.push(format!("MUSICBRAINZ_RELEASETRACKID{}", "x".repeat(n.saturating_sub(26))));
        keys.push(format!("Artist{}", "_".repeat(n.saturating_sub(6))));
    }
    let decs = decoders();
    let tagged: Vec<&Decoder> = decs.iter().filter(|d| ["playlistinfo", "find", "list", "list-group1", "currentsong"].contains(&d.name)).collect();
    for k in keys.iter().filter(|k| !k.is_empty()) {
        let bytes = format!("file: x\n{k}: v\nOK\n").into_bytes();
        let (rs, end) = parse_responses_checked(&bytes);
        acc.field_lists += 1;
        if end.is_err() || rs.is_empty() {
            continue; // rejected by the parser: InvalidMessage, nothing reaches the decoders
        }
        for d in &tagged {
            let fields = vec![("file".to_string(), "x".to_string()), (k.clone(), "v".to_string())];
            let frames: Vec<Frame> = parse_responses(&bytes).remove(0).into_iter().filter_map(|r| r.ok()).collect();
            acc.conversions += 1;
            if let Err(msg) = catch(|| (d.run)(frames)) {
                acc.viol.push(Violation::new(
                    format!("C12/panic-on-key-outside-tag-alphabet-{}", d.name),
                    format!("the parser accepts the field name {:?} and `{}` panics on it: {msg}", show_bytes(k.as_bytes()), d.name),
                    json!({"kind": "decoder", "decoder": d.name, "fields": fields, "binary": false, "feature": feature()}),
                ));
            }
        }
    }
}

pub fn collect(tier: Tier) -> (Acc, Vec<Value>) {
    let decs = decoders();
    let mut acc = decs.par_iter().map(|d| enumerate_decoder(d, tier)).reduce(Acc::default, Acc::merge);
    key_alphabet_sweep(&mut acc);
    let mut samples = Vec::new();
    for (shape, n, k, r) in list_shape_cases() {
        acc.conversions += 1;
        if n != k {
            acc.nontrivial += 1;
        }
        match r {
            Ok(Ok(())) => acc.ok += 1,
            Ok(Err(_)) => acc.err += 1,
            Err(msg) => acc.viol.push(Violation::new(
                if shape.starts_with("Vec") { "C12/panic-vec-list-frame-count" } else { "C12/panic-tuple-list-frame-count" },
                format!("[{}] {shape}: {n} commands answered with {k} frames panics: {msg}", feature()),
                json!({"kind": "list", "shape": shape, "commands": n, "frames": k, "feature": feature()}),
            )),
        }
    }
    samples.push(json!({"decoder": "status", "edit": "duration: 18446744073709551616", "feature": feature()}));
    samples.push(json!({"decoder": "list-group1", "fields": [["Artist", "x"], ["Title", "unexpected tag"], ["Album", "a"]], "feature": feature()}));
    samples.push(json!({"list": "tuple of 3 answered with 2 frames", "feature": feature()}));
    (acc, samples)
}

/// `verif C12-part <tier>`: run this build's share and print it as JSON (used for the chrono build)
pub fn run_part(tier: Tier) -> i32 {
    let (acc, samples) = collect(tier);
    let viol: Vec<Value> = acc.viol.by_sig.iter().flat_map(|(sig, (n, ex))| ex.iter().map(move |v| json!({"sig": sig, "count": n, "what": v.what, "case": v.case}))).collect();
    println!(
        "{}",
        json!({"feature": feature(), "conversions": acc.conversions, "ok": acc.ok, "err": acc.err, "field_lists": acc.field_lists, "nontrivial": acc.nontrivial, "violations": viol, "samples": samples})
    );
    0
}

pub fn run(tier: Tier) -> i32 {
    let mut ctx = Ctx::new("C12", tier, "model_checking");
    ctx.assume("frames are obtained by pushing harness-encoded bytes through the real parser; field names outside the parser's alphabet are swept separately (whatever the parser lets through is fed to the tag-keyed decoders)");
    let (mut acc, mut samples) = collect(tier);
    let mut builds = vec![json!({"feature": feature(), "conversions": acc.conversions, "values": acc.ok, "typed_errors": acc.err})];
    match std::env::var("VERIF_CHRONO_BIN") {
        Ok(bin) if !cfg!(feature = "chrono") => {
            let out = std::process::Command::new(&bin).arg("C12-part").arg(tier.as_str()).output();
            let out = match out {
                Ok(o) if o.status.success() => o,
                other => machinery_error(&format!("C12: the chrono build {bin} did not run: {other:?}")),
            };
            let text = String::from_utf8_lossy(&out.stdout);
            let line = text.lines().rev().find(|l| l.starts_with('{')).unwrap_or("{}");
            let v: Value = serde_json::from_str(line).unwrap_or_else(|e| machinery_error(&format!("C12: chrono part printed no JSON: {e}")));
            if v["feature"].as_str() != Some("chrono") {
                machinery_error("C12: VERIF_CHRONO_BIN is not a chrono build");
            }
            acc.conversions += v["conversions"].as_u64().unwrap_or(0);
            acc.ok += v["ok"].as_u64().unwrap_or(0);
            acc.err += v["err"].as_u64().unwrap_or(0);
            acc.field_lists += v["field_lists"].as_u64().unwrap_or(0);
            acc.nontrivial += v["nontrivial"].as_u64().unwrap_or(0);
            builds.push(json!({"feature": "chrono", "conversions": v["conversions"], "values": v["ok"], "typed_errors": v["err"]}));
            for x in v["violations"].as_array().cloned().unwrap_or_default() {
                let n = x["count"].as_u64().unwrap_or(1);
                let viol = Violation::new(x["sig"].as_str().unwrap_or("C12/panic"), x["what"].as_str().unwrap_or(""), x["case"].clone());
                let e = acc.viol.by_sig.entry(viol.sig.clone()).or_insert((0, Vec::new()));
                if e.1.is_empty() {
                    e.0 += n;
                }
                if e.1.len() < KEEP_PER_SIG {
                    e.1.push(viol);
                }
            }
            samples.extend(v["samples"].as_array().cloned().unwrap_or_default().into_iter().take(1));
        }
        _ => {
            ctx.assume("NOTE: only the build with default features was run (VERIF_CHRONO_BIN not set); ./check C12 runs both");
        }
    }
    if acc.ok == 0 || acc.err == 0 {
        machinery_error("C12: vacuous enumeration (no successful or no failing conversion)");
    }
    let mut cov = Coverage::default();
    cov.evaluations = acc.conversions;
    cov.distinct_nontrivial = acc.nontrivial;
    cov.rule = format!(
        "per typed decoder ({} decoders): every field list of length <= 2 over (keys the decoder mentions + unrelated / tag / case-variant keys) x {} boundary value spellings, with and without binary where relevant (thorough: length 3 over a reduced pool); a valid base reply with every single edit (delete, replace value by each pool value, swap neighbours, insert each (key, value) at every position) and pairs of edits; typed Vec lists of 0..=5 and tuples of arity 1..=8 with every frame count 0..=N+1; field names of length <= 3 over 9 byte classes through the parser into the tag-keyed decoders; non-trivial = edited valid replies and mismatching frame counts",
        decoders().len(),
        VALUES.len()
    );
    cov.states = acc.field_lists;
    cov.transitions = acc.conversions;
    cov.traces = acc.conversions;
    cov.exhaustive = true;
    cov.samples = samples;
    cov.set("builds", Value::Array(builds));
    cov.set("conversions_yielding_value", json!(acc.ok));
    cov.set("conversions_yielding_typed_error", json!(acc.err));
    cov.set("state_meaning", json!("states = distinct field lists / list shapes fed; transitions = conversions (+ accessor drives) executed under catch_unwind"));
    finish(&ctx, cov, acc.viol)
}

pub fn replay(case: &Value) -> i32 {
    let want_feature = case["feature"].as_str().unwrap_or("default");
    if want_feature != feature() {
        println!("replay C12: this case was recorded with the `{want_feature}` build; this binary is `{}` (./check picks the right one)", feature());
    }
    if case["kind"].as_str() == Some("list") {
        let n = case["commands"].as_u64().unwrap_or(0) as usize;
        let k = case["frames"].as_u64().unwrap_or(0) as usize;
        let shape = case["shape"].as_str().unwrap_or("");
        for (s, nn, kk, r) in list_shape_cases() {
            if s == shape && nn == n && kk == k {
                println!("replay C12: {s}: {n} commands answered with {k} frames -> {r:?}");
                return if r.is_err() { println!("replay: VIOLATION (panic)"); 1 } else { println!("replay: property holds on this case"); 0 };
            }
        }
        return 2;
    }
    let name = case["decoder"].as_str().unwrap_or("");
    let fields: Vec<(String, String)> = case["fields"].as_array().map(|a| a.iter().map(|p| (p[0].as_str().unwrap_or("").to_string(), p[1].as_str().unwrap_or("").to_string())).collect()).unwrap_or_default();
    let decs = decoders();
    let Some(d) = decs.iter().find(|d| d.name == name) else { return 2 };
    println!("replay C12: decoder `{name}`, fields {fields:?}");
    let mut acc = Acc::default();
    let bin: Option<&[u8]> = if case["binary"].as_bool() == Some(true) { Some(b"abc") } else { None };
    convert(d, &fields, bin, &mut acc, true);
    if acc.viol.is_empty() {
        println!("replay: property holds on this case");
        0
    } else {
        println!("replay: VIOLATION (panic)");
        1
    }
}
