//! Oracles and scenarios for the client-loop properties C01, C04, C05, C08 (engine: loopmc).

use std::time::{Duration, Instant};

use serde_json::{json, Value};

use crate::{
    common::*,
    engines::loopmc::*,
    mpdref::{
        server::{RecKind, Record},
        wire::{ref_decode, RefEnd},
    },
};

// ---------------------------------------------------------------------------------------------
// helpers over a trace

pub fn op_lines(op: &Op) -> Vec<Vec<u8>> {
    match op {
        Op::Raw(l) => vec![l.as_bytes().to_vec()],
        Op::RawList(ls) if ls.len() == 1 => vec![ls[0].as_bytes().to_vec()],
        Op::RawList(ls) => {
            let mut v = vec![b"command_list_ok_begin".to_vec()];
            v.extend(ls.iter().map(|l| l.as_bytes().to_vec()));
            v.push(b"command_list_end".to_vec());
            v
        }
        Op::ProbeSingle(i) => vec![format!("probe {i}").into_bytes()],
        Op::ProbeVec(ids) | Op::ProbeTuple(ids) => {
            if ids.is_empty() {
                vec![]
            } else if ids.len() == 1 {
                vec![format!("probe {}", ids[0]).into_bytes()]
            } else {
                let mut v = vec![b"command_list_ok_begin".to_vec()];
                v.extend(ids.iter().map(|i| format!("probe {i}").into_bytes()));
                v.push(b"command_list_end".to_vec());
                v
            }
        }
        Op::MixedList => {
            let mut v = vec![b"command_list_ok_begin".to_vec()];
            v.extend(MIXED_LIST_LINES.iter().map(|l| l.as_bytes().to_vec()));
            v.push(b"command_list_end".to_vec());
            v
        }
        Op::AlbumArt(_) => vec![],
    }
}

/// a request line as MPD reads it (how the client quotes its arguments is not this oracle's business)
pub fn norm_line(l: &[u8]) -> (Vec<u8>, Vec<Vec<u8>>) {
    match crate::mpdref::tokenizer::tokenize(l) {
        Ok(r) => (r.name, r.args),
        Err(_) => (l.to_vec(), vec![]),
    }
}

pub fn same_lines(a: &[Vec<u8>], b: &[Vec<u8>]) -> bool {
    a.len() == b.len() && a.iter().zip(b).all(|(x, y)| norm_line(x) == norm_line(y))
}

fn find_record<'a>(t: &'a Trace, lines: &[Vec<u8>]) -> Vec<(usize, &'a Record)> {
    t.server
        .transcript
        .iter()
        .enumerate()
        .filter(|(_, r)| matches!(r.kind, RecKind::Command | RecKind::List) && same_lines(&r.lines, lines))
        .collect()
}

/// bytes of s2c the client had read when log position `pos` was reached
fn read_upto(t: &Trace, pos: usize) -> usize {
    t.log[..pos.min(t.log.len())]
        .iter()
        .map(|o| if let Obs::Read(b) = o { b.len() } else { 0 })
        .sum()
}

fn write_mark(t: &Trace, c2s_end: usize) -> Option<(usize, usize, usize)> {
    t.read_pos_at_write.iter().copied().find(|(wl, _, _)| *wl >= c2s_end)
}

fn expected_outcome(op: &Op, reply: &[u8]) -> Result<OpOutcome, String> {
    let d = ref_decode(reply);
    if d.end != RefEnd::Clean || d.responses.len() != 1 {
        return Err(format!("harness: server reply is not exactly one response: {}", show_bytes(reply)));
    }
    let r = d.responses.into_iter().next().unwrap();
    Ok(match op {
        Op::Raw(_) => match r.error {
            None => OpOutcome::Frame(Ok(r.frames.into_iter().next().unwrap_or_default())),
            Some(e) => OpOutcome::Frame(Err(AErr::ErrorResponse { error: e, frames: vec![] })),
        },
        Op::RawList(_) => match r.error {
            None => OpOutcome::Frames(Ok(r.frames)),
            Some(e) => OpOutcome::Frames(Err(AErr::ErrorResponse { error: e, frames: r.frames })),
        },
        Op::ProbeSingle(_) | Op::ProbeVec(_) | Op::ProbeTuple(_) => match r.error {
            None => OpOutcome::Probes(Ok(r.frames.iter().map(|f| f.fields.first().map(|x| x.1.clone()).unwrap_or_default()).collect())),
            Some(e) => {
                let frames = if matches!(op, Op::ProbeSingle(_)) { vec![] } else { r.frames };
                OpOutcome::Probes(Err(AErr::ErrorResponse { error: e, frames }))
            }
        },
        Op::MixedList => match r.error {
            None => OpOutcome::Probes(Ok(r
                .frames
                .iter()
                .zip(MIXED_LIST_LINES)
                .map(|(f, line)| {
                    if line.starts_with("probe") {
                        f.fields.first().map(|x| x.1.clone()).unwrap_or_default()
                    } else {
                        describe_art(f.binary.as_ref().map(|b| (&b[..], f.fields.iter().find(|(k, _)| k == "type").map(|(_, v)| v.as_str()))))
                    }
                })
                .collect())),
            Some(e) => OpOutcome::Probes(Err(AErr::ErrorResponse { error: e, frames: r.frames })),
        },
        Op::AlbumArt(_) => return Err("album art has its own oracle".into()),
    })
}

// ---------------------------------------------------------------------------------------------
// C01

pub fn oracle_c01(_scn: &Scenario, t: &Trace, st: &mut ExploreStats) -> Vec<Violation> {
    let mut out = Vec::new();
    let healthy = t.fault.is_none();
    let mut any_overlap = false;
    for (ci, ops) in t.ops.iter().enumerate() {
        let mut last_rec_idx: Option<usize> = None;
        for (oi, rec) in ops.iter().enumerate() {
            if rec.issued_step.is_none() {
                continue;
            }
            let lines = op_lines(&rec.op);
            if lines.is_empty() {
                continue;
            }
            // byte-identical requests (of any caller) are judged as a group further down
            if t.ops.iter().flatten().filter(|o| op_lines(&o.op) == lines).count() > 1 {
                continue;
            }
            let found = find_record(t, &lines);
            if found.len() > 1 {
                out.push(Violation::new("C01/request-sent-twice", format!("caller {ci} op {oi} {:?} reached the server {} times", rec.op, found.len()), Value::Null));
            }
            // per-caller order at the server
            if let Some((idx, _)) = found.first() {
                if let Some(prev) = last_rec_idx {
                    if *idx < prev {
                        out.push(Violation::new("C01/caller-order", format!("caller {ci}: op {oi} reached the server before an earlier op of the same caller"), Value::Null));
                    }
                }
                last_rec_idx = Some(*idx);
            }
            if rec.cancelled {
                st.count("cancelled_ops");
                continue;
            }
            match &rec.outcome {
                None => {
                    if healthy {
                        out.push(Violation::new("C01/request-never-resolves", format!("caller {ci} op {oi} {:?} is still pending after drain (everything delivered, 3 ticks)", rec.op), Value::Null));
                    }
                }
                Some(got) => match found.first() {
                    None => {
                        if healthy || got.is_ok() {
                            out.push(Violation::new(
                                "C01/reply-without-request",
                                format!("caller {ci} op {oi} {:?} resolved with {} although its request never reached the server", rec.op, got.short()),
                                Value::Null,
                            ));
                        }
                    }
                    Some((_, r)) => {
                        let reply = &t.s2c[r.reply_start.min(t.s2c.len())..r.reply_end.min(t.s2c.len())];
                        // was the reply completely handed to the client when the op completed?
                        let read = rec.done_log_pos.map(|p| read_upto(t, p)).unwrap_or(0);
                        if healthy || got.is_ok() {
                            match expected_outcome(&rec.op, reply) {
                                Err(e) => {
                                    if healthy {
                                        machinery_error(&e)
                                    } else if got.is_ok() {
                                        out.push(Violation::new("C01/ok-from-incomplete-reply", format!("caller {ci} op {oi} got {} but the server's reply is incomplete: {}", got.short(), show_bytes(reply)), Value::Null));
                                    }
                                }
                                Ok(want) => {
                                    if &want != got {
                                        out.push(Violation::new(
                                            "C01/wrong-reply",
                                            format!("caller {ci} op {oi} {:?}: got {} but the server answered this request with {}", rec.op, got.short(), want.short()),
                                            Value::Null,
                                        ));
                                    } else if got.is_ok() && read < r.reply_end {
                                        out.push(Violation::new("C01/reply-before-delivery", format!("caller {ci} op {oi} resolved before its reply was completely delivered"), Value::Null));
                                    }
                                }
                            }
                        }
                    }
                },
            }
        }
    }
    // groups of byte-identical requests: every one of them reaches the server (a request is an
    // action, not a query to be answered from someone else's reply), and the callers' results are
    // the replies to distinct executions
    let mut seen_groups: Vec<Vec<Vec<u8>>> = Vec::new();
    for rec0 in t.ops.iter().flatten() {
        let lines = op_lines(&rec0.op);
        if lines.is_empty() || seen_groups.contains(&lines) {
            continue;
        }
        let group: Vec<&OpRecord> = t.ops.iter().flatten().filter(|o| op_lines(&o.op) == lines).collect();
        if group.len() < 2 {
            continue;
        }
        seen_groups.push(lines.clone());
        st.count("identical_request_groups");
        let records = find_record(t, &lines);
        let issued = group.iter().filter(|r| r.issued_step.is_some()).count();
        let must_reach = group.iter().filter(|r| r.issued_step.is_some() && !r.cancelled).count();
        if records.len() > issued {
            out.push(Violation::new("C01/request-sent-twice", format!("{issued} identical requests {:?} were issued but the server executed {}", group[0].op, records.len()), Value::Null));
        }
        if healthy && records.len() < must_reach {
            out.push(Violation::new("C01/identical-request-not-sent", format!("{must_reach} identical requests {:?} were issued (and not cancelled) but only {} reached the server", group[0].op, records.len()), Value::Null));
        }
        // injective matching of results to executions
        let mut free: Vec<Option<OpOutcome>> = records
            .iter()
            .map(|(_, r)| expected_outcome(&group[0].op, &t.s2c[r.reply_start.min(t.s2c.len())..r.reply_end.min(t.s2c.len())]).ok())
            .collect();
        for r in &group {
            if r.issued_step.is_none() || r.cancelled {
                continue;
            }
            match &r.outcome {
                None => {
                    if healthy {
                        out.push(Violation::new("C01/request-never-resolves", format!("one of the identical requests {:?} is still pending after drain", r.op), Value::Null));
                    }
                }
                Some(got) => {
                    if !(healthy || got.is_ok()) {
                        continue;
                    }
                    match free.iter().position(|f| f.as_ref() == Some(got)) {
                        Some(i) => free[i] = None,
                        None => out.push(Violation::new(
                            "C01/wrong-reply",
                            format!("one of the identical requests {:?} resolved with {}, which is not the reply to an execution of its own (another caller's reply shared, or no execution at all)", r.op, got.short()),
                            Value::Null,
                        )),
                    }
                }
            }
        }
    }
    // vacuity counters: did a request arrive while an idle reply was partly delivered?
    let mut partial_idle_then_issue = false;
    let mut saw_partial = false;
    for o in &t.log {
        match o {
            Obs::Ev { name, .. } if name.starts_with("Deliver(") => saw_partial = true,
            Obs::Ev { name, .. } if name.starts_with("Issue(") && saw_partial => partial_idle_then_issue = true,
            Obs::Ev { name, .. } if name == "DeliverAll" => saw_partial = false,
            _ => {}
        }
    }
    if partial_idle_then_issue {
        st.count("issue_after_partial_delivery");
    }
    let issues: Vec<usize> = t.log.iter().enumerate().filter_map(|(i, o)| if let Obs::Ev { name, .. } = o { if name.starts_with("Issue(") { Some(i) } else { None } } else { None }).collect();
    for w in issues.windows(2) {
        // two issues without a completion in between = both queued / in flight
        if !t.log[w[0]..w[1]].iter().any(|o| matches!(o, Obs::Done { .. })) {
            any_overlap = true;
        }
    }
    if any_overlap {
        st.count("two_requests_outstanding");
    }
    out
}

// ---------------------------------------------------------------------------------------------
// C04

pub fn oracle_c04(scn: &Scenario, t: &Trace, st: &mut ExploreStats) -> Vec<Violation> {
    let mut out = Vec::new();
    if scn.drop_events_rx {
        return out;
    }
    let got: Vec<String> = t.events.iter().filter_map(|e| e.text.strip_prefix("changed:").map(|s| s.to_string())).collect();
    let want: Vec<String> = t.server.changed.iter().map(|(n, _)| n.clone()).collect();
    if !want.is_empty() {
        st.count("executions_with_notifications");
    }
    // replies with several changed lines
    let mut multi = false;
    for w in t.server.changed.windows(2) {
        if w[0].1 == w[1].1 {
            multi = true;
        }
    }
    if multi {
        st.count("idle_reply_with_several_changed_lines");
    }
    // prefix property at every point; at drain every change whose idle reply the client has read
    // completely must have been delivered (also when the connection died right afterwards)
    let want_all = want;
    let want: Vec<String> = t.server.changed.iter().filter(|(_, end)| *end <= t.read_pos).map(|(n, _)| n.clone()).collect();
    let k = got.len().min(want_all.len());
    let prefix_ok = got[..k] == want_all[..k];
    let live = t.fault.is_none();
    let equal = got == want;
    if live && want.len() != want_all.len() {
        // a healthy run ends with everything delivered and read: a client that has stopped reading
        // although nothing happened to the connection has lost the changes still on their way
        out.push(Violation::new(
            "C04/client-stopped-reading",
            format!("nothing happened to the connection, yet after the drain {} of the {} reported changes lie in idle replies the client has not read (choices {:?})", want_all.len() - want.len(), want_all.len(), t.choice_names()),
            Value::Null,
        ));
        return out;
    }
    if !prefix_ok || got.len() > want_all.len() || !equal {
        // classify
        let sig = if prefix_ok && got.len() > want.len() {
            "C04/event-invented"
        } else {
            // is `got` obtained from `want` by dropping exactly the non-first lines of multi-line replies?
            let mut only_first: Vec<String> = Vec::new();
            let mut last_end = usize::MAX;
            for (n, end) in &t.server.changed {
                if *end != last_end {
                    only_first.push(n.clone());
                }
                last_end = *end;
            }
            if multi && got == only_first {
                "C04/only-first-changed-line"
            } else if is_subsequence(&got, &want) {
                // events lost: was a partial delivery followed by a request?
                let mut partial = false;
                let mut lost_after_partial = false;
                for o in &t.log {
                    match o {
                        Obs::Ev { name, .. } if name.starts_with("Deliver(") => partial = true,
                        Obs::Ev { name, .. } if name.starts_with("Issue(") && partial => lost_after_partial = true,
                        _ => {}
                    }
                }
                if lost_after_partial {
                    "C04/partial-idle-reply-dropped"
                } else {
                    "C04/event-lost"
                }
            } else {
                "C04/events-mismatch"
            }
        };
        out.push(Violation::new(
            sig,
            format!("server reported changes {:?} but the event receiver got {:?} (choices {:?})", want, got, t.choice_names()),
            Value::Null,
        ));
    }
    out
}

fn is_subsequence(a: &[String], b: &[String]) -> bool {
    let mut i = 0;
    for x in b {
        if i < a.len() && &a[i] == x {
            i += 1;
        }
    }
    i == a.len()
}

// ---------------------------------------------------------------------------------------------
// C05

pub fn oracle_c05(scn: &Scenario, t: &Trace, st: &mut ExploreStats) -> Vec<Violation> {
    let mut out = Vec::new();
    let tr = &t.server.transcript;
    // (b) protocol violations seen by the server
    for v in &t.server.violations {
        out.push(Violation::new("C05/line-during-idle", format!("{v} (choices {:?})", t.choice_names()), Value::Null));
    }
    // (a) first line(s)
    if matches!(t.connect_result, Some(Ok(_))) {
        let mut it = tr.iter();
        let first = it.next();
        let ok = match (&scn.connect, first) {
            (ConnectMode::Plain, Some(r)) | (ConnectMode::PasswordOpt(None), Some(r)) => r.kind == RecKind::Idle,
            (ConnectMode::Password(_), Some(r)) | (ConnectMode::PasswordOpt(Some(_)), Some(r)) => r.kind == RecKind::Password && it.next().map(|r| r.kind == RecKind::Idle).unwrap_or(false),
            (_, None) => false,
        };
        if !ok && t.fault.is_none() {
            out.push(Violation::new("C05/first-line-not-idle", format!("after the handshake the client wrote {:?}", tr.first().map(|r| show_bytes(&r.lines[0]))), Value::Null));
        }
    }
    // (c)/(d) walk the session from the client's point of view
    #[derive(PartialEq)]
    enum S {
        NoIdle,
        IdlePending { noidle: bool, produced_at_idle: usize },
    }
    let mut state = S::NoIdle;
    let mut race = false;
    for r in tr {
        let Some((_, rp, produced)) = write_mark(t, r.c2s_end) else { continue };
        match r.kind {
            RecKind::Idle => {
                if rp < produced {
                    out.push(Violation::new("C05/idle-before-reply-read", format!("idle written while {} bytes of the previous reply were unread", produced - rp), Value::Null));
                }
                if let S::IdlePending { .. } = state {
                    // idle while an idle is pending from the client's view: only legal if that idle's reply was read
                }
                state = S::IdlePending { noidle: false, produced_at_idle: produced };
            }
            RecKind::Noidle => {
                if r.ignored {
                    race = true;
                }
                if let S::IdlePending { produced_at_idle, .. } = state {
                    state = S::IdlePending { noidle: true, produced_at_idle };
                }
            }
            RecKind::Password | RecKind::Command | RecKind::List => {
                if r.ignored {
                    continue; // already reported as line-during-idle
                }
                if rp < produced {
                    out.push(Violation::new(
                        "C05/request-before-reply-read",
                        format!("request {:?} written while {} bytes the server had already sent were unread (a second request outstanding / reply not consumed)", show_bytes(&r.lines[0]), produced - rp),
                        Value::Null,
                    ));
                }
                if let S::IdlePending { noidle, produced_at_idle } = state {
                    let consumed = &t.s2c[produced_at_idle.min(t.s2c.len())..rp.min(t.s2c.len())];
                    let d = ref_decode(consumed);
                    if d.responses.len() != 1 || d.end != RefEnd::Clean {
                        out.push(Violation::new(
                            "C05/request-while-idle-pending",
                            format!("request {:?} written after idle without consuming exactly one reply in between (noidle sent: {noidle}, consumed {:?})", show_bytes(&r.lines[0]), show_bytes(consumed)),
                            Value::Null,
                        ));
                    }
                }
                state = S::NoIdle;
            }
        }
    }
    if race {
        st.count("noidle_changed_race");
    }
    // (e) liveness: a strict tick is followed by `idle`
    let mut i = 0;
    let mut drain_seen = false;
    while i < t.log.len() {
        if matches!(t.log[i], Obs::Drain) {
            drain_seen = true;
        }
        if let Obs::Ev { name, strict_tick: true, .. } = &t.log[i] {
            if name == "Tick" && t.fault.is_none() {
                st.count("reidle_windows_checked");
                let mut j = i + 1;
                // (a transport with short writes takes the line in several pieces)
                let mut written: Vec<u8> = Vec::new();
                while j < t.log.len() && !matches!(t.log[j], Obs::Ev { .. } | Obs::Drain) {
                    if let Obs::Write(b) = &t.log[j] {
                        written.extend_from_slice(b);
                    }
                    j += 1;
                }
                // the delay itself is not part of the property ("within the re-idle delay"): a
                // strict tick that is followed by further strict ticks is still waiting
                let still_waiting = matches!(t.log.get(j), Some(Obs::Ev { name, strict_tick: true, .. }) if name == "Tick");
                let wrote_idle = written == b"idle\n" || still_waiting;
                // the length of the delay is not part of the property: how long the client waits is
                // judged at drain only (idle must have been issued within 6 s of virtual time)
                let _ = wrote_idle;
                if false {
                    out.push(Violation::new("C05/no-reidle-after-tick", format!("100 ms after a reply with no further request the client did not write idle (drain: {drain_seen}; choices {:?})", t.choice_names()), Value::Null));
                }
            }
        }
        i += 1;
    }
    if t.fault.is_none() && matches!(t.connect_result, Some(Ok(_))) {
        let last = tr.iter().rev().find(|r| r.kind != RecKind::Noidle || !r.ignored);
        let idle_last = last.map(|r| r.kind == RecKind::Idle).unwrap_or(false);
        if idle_last && !t.server.idle_waiting && !t.server.dead {
            out.push(Violation::new(
                "C05/not-idling-at-drain",
                format!("after everything was delivered and 3 ticks the server is not waiting in idle: the client's last idle was answered and it did not idle again (choices {:?})", t.choice_names()),
                Value::Null,
            ));
        }
        if !idle_last {
            out.push(Violation::new("C05/not-idling-at-drain", format!("after everything was delivered and 3 ticks the last line written is {:?}", last.map(|r| show_bytes(&r.lines[0]))), Value::Null));
        }
    }
    out
}

// ---------------------------------------------------------------------------------------------
// C08

pub fn oracle_c08(scn: &Scenario, t: &Trace, st: &mut ExploreStats) -> Vec<Violation> {
    let mut out = Vec::new();
    let Some((fault, _)) = &t.fault else { return out };
    let choices = t.choice_names();
    // a fault that made the handshake itself fail: there is no client, no request and no event stream to
    // speak of (C18 judges the handshake's result)
    if !matches!(t.connect_result, Some(Ok(_))) {
        st.count("fault_during_the_handshake");
        return out;
    }
    // did the client run into the fault?
    // (the malformed line is the last 11 bytes of the stream; the client may stop reading in the
    // middle of it once the line cannot become valid any more)
    let garbage_read = matches!(fault, Ev::Garbage) && t.read_pos + 11 > t.s2c.len() || matches!(fault, Ev::GarbageOpen) && t.read_pos + GARBAGE_OPEN.len() > t.s2c.len() || matches!(fault, Ev::HugeBinary) && t.read_pos + crate::engines::loopmc::HUGE_BINARY.len() > t.s2c.len();
    let ended = t.saw_eof || t.saw_read_err || t.saw_write_err || garbage_read || t.handles_dropped;
    if !ended {
        st.count("fault_never_noticed");
        // a client that is alive always has a read outstanding (idling or waiting for a reply), or
        // gets back to one after its re-idle delay: a peer close, a reset, a read error or garbage
        // cannot stay unnoticed until the end of the drain. (A write error is only met on a write.)
        if matches!(fault, Ev::Close(_) | Ev::CloseRst(_) | Ev::ReadErr | Ev::ReadErrAfter(_) | Ev::Garbage | Ev::GarbageOpen | Ev::HugeBinary) && matches!(t.connect_result, Some(Ok(_))) {
            out.push(Violation::new(
                "C08/connection-end-not-noticed",
                format!("{} went unnoticed: after the drain (everything delivered, ticks) the client has still not run into it, is_connection_closed() = {:?} (choices {:?})", fault.name(), t.closed_flag, choices),
                Value::Null,
            ));
        }
        return out;
    }
    st.count(&format!("ended_by_{}", match fault {
        Ev::Close(_) => "close",
        Ev::CloseRst(_) => "close_reset",
        Ev::ReadErr => "read_error",
        Ev::ReadErrAfter(_) => "read_error_behind_data_in_flight",
        Ev::WriteErr => "write_error",
        Ev::Garbage => "garbage",
        Ev::GarbageOpen => "garbage_without_line_end",
        Ev::HugeBinary => "impossible_binary_length_then_end_of_stream",
        _ => "drop_handles",
    }));
    // every request resolved
    for (ci, ops) in t.ops.iter().enumerate() {
        for (oi, rec) in ops.iter().enumerate() {
            if rec.issued_step.is_some() && !rec.cancelled && rec.outcome.is_none() {
                out.push(Violation::new("C08/request-hangs", format!("caller {ci} op {oi} {:?} never resolved after {} (choices {:?})", rec.op, fault.name(), choices), Value::Null));
            }
        }
    }
    if let Some(lp) = &t.late_probe {
        match &lp.outcome {
            None => out.push(Violation::new("C08/later-request-hangs", format!("a request issued after the connection ended ({}) never resolved (choices {:?})", fault.name(), choices), Value::Null)),
            Some(o) if o.is_ok() => out.push(Violation::new("C08/later-request-ok", format!("a request issued after the connection ended resolved with {}", o.short()), Value::Null)),
            _ => {}
        }
    }
    // "... resolves with its reply if that was completely received": a request whose reply the client has read
    // to its last byte gets that reply, whatever ended the connection afterwards (round 6: a read-ahead that
    // lets an error behind the reply pre-empt it). Judged for requests whose line(s) identify exactly one
    // transcript record.
    for (ci, ops) in t.ops.iter().enumerate() {
        for (oi, rec) in ops.iter().enumerate() {
            let lines = op_lines(&rec.op);
            if rec.issued_step.is_none() || rec.cancelled || lines.is_empty() || !matches!(rec.op, Op::Raw(_) | Op::RawList(_)) {
                continue;
            }
            let recs = find_record(t, &lines);
            if recs.len() != 1 {
                continue;
            }
            let r = recs[0].1;
            if r.reply_end > r.reply_start && r.reply_end <= t.read_pos && r.reply_end <= t.s2c.len() {
                st.count("replies_read_completely_before_the_end");
                if let Some(o) = &rec.outcome {
                    if matches!(o.err(), Some(AErr::Closed) | Some(AErr::Protocol(_))) {
                        out.push(Violation::new(
                            "C08/complete-reply-not-delivered",
                            format!("caller {ci} op {oi} {:?}: the client had read the complete reply (bytes {}..{} of {} read) before {} ended the connection, but the caller got {} (choices {:?})", rec.op, r.reply_start, r.reply_end, t.read_pos, fault.name(), o.short(), choices),
                            Value::Null,
                        ));
                    }
                }
            }
        }
    }
    // a picture load that the connection's end interrupted: the picture (if every chunk had been read), or an
    // error - never "no picture", and never other bytes than the server's
    for (ci, ops) in t.ops.iter().enumerate() {
        for (oi, rec) in ops.iter().enumerate() {
            if !matches!(rec.op, Op::AlbumArt(_)) || rec.issued_step.is_none() || rec.cancelled {
                continue;
            }
            st.count("album_art_loads_under_fault");
            let crate::mpdref::server::PicSource::Data(want, want_mime) = &scn.server.embedded else { continue };
            match &rec.outcome {
                Some(OpOutcome::Art(Ok(None))) => out.push(Violation::new(
                    "C08/album-art-failure-reported-as-absent",
                    format!("caller {ci} op {oi}: album_art resolved with Ok(None) although the server has the picture; {} ended the connection during the load (choices {:?})", fault.name(), choices),
                    Value::Null,
                )),
                Some(OpOutcome::Art(Ok(Some((b, m))))) if b != want || m != want_mime => out.push(Violation::new(
                    "C08/album-art-partial-result",
                    format!("caller {ci} op {oi}: album_art resolved with {} bytes (mime {m:?}) instead of the {} the server has, after {} (choices {:?})", b.len(), want.len(), fault.name(), choices),
                    Value::Null,
                )),
                _ => {}
            }
        }
    }
    // Ok only for completely delivered, matching replies
    out.extend(oracle_c01(scn, t, &mut ExploreStats::default()).into_iter().filter(|v| v.sig != "C01/request-never-resolves"));
    // closed flag
    if let Some(false) = t.closed_flag {
        out.push(Violation::new("C08/not-reported-closed", format!("is_connection_closed() is false after {} (choices {:?})", fault.name(), choices), Value::Null));
    }
    // event stream: at most one closing event, then end
    if !scn.drop_events_rx {
        let closing = t.events.iter().filter(|e| e.text.starts_with("closed:")).count();
        if closing > 1 {
            out.push(Violation::new("C08/several-closing-events", format!("{closing} ConnectionClosed events"), Value::Null));
        }
        if !t.events_ended {
            out.push(Violation::new("C08/event-stream-not-ended", format!("the event stream did not end after {} (choices {:?})", fault.name(), choices), Value::Null));
        }
        if let Some(pos) = t.events.iter().position(|e| e.text.starts_with("closed:")) {
            if pos + 1 != t.events.len() {
                out.push(Violation::new("C08/event-after-closing-event", "events were delivered after ConnectionClosed".to_string(), Value::Null));
            }
        }
    }
    // an unclean end is surfaced
    let unclean = match fault {
        Ev::Close(_) => ref_decode(&t.s2c[scn.greeting.len().min(t.s2c.len())..]).end != RefEnd::Clean,
        // a reset is unclean if the cut is inside a response or the client ran into a failing write
        Ev::CloseRst(_) => ref_decode(&t.s2c[scn.greeting.len().min(t.s2c.len())..]).end != RefEnd::Clean || t.saw_write_err,
        Ev::ReadErr | Ev::ReadErrAfter(_) => t.saw_read_err,
        Ev::WriteErr => t.saw_write_err,
        Ev::Garbage | Ev::GarbageOpen | Ev::HugeBinary => garbage_read,
        _ => false,
    };
    if unclean {
        st.count("unclean_ends");
        let caller_err = t.ops.iter().flatten().chain(t.late_probe.iter()).any(|r| matches!(r.outcome.as_ref().and_then(|o| o.err()), Some(AErr::Protocol(_))));
        let closing_event = t.events.iter().any(|e| e.text.starts_with("closed:"));
        let surfaced = caller_err || closing_event || scn.drop_events_rx && caller_err;
        if !surfaced && !scn.drop_events_rx {
            let sig = if matches!(fault, Ev::Close(_) | Ev::CloseRst(_)) { "C08/unclean-close-reported-clean" } else { "C08/failure-not-surfaced" };
            out.push(Violation::new(sig, format!("{} ended the connection uncleanly but no caller saw a protocol error and no ConnectionClosed event was emitted (choices {:?})", fault.name(), choices), Value::Null));
        }
        // ... and to the right party: "to the caller whose request was in flight or, if none was,
        // as a closing event". Judged only where "in flight" is beyond doubt: no caller gave up,
        // and either the request line itself reached the server and was never answered (R1), or
        // the last thing the client wrote is the `noidle` it only ever writes on behalf of a
        // request it has taken from the queue (R2).
        let no_cancel = t.ops.iter().flatten().all(|r| !r.cancelled);
        if no_cancel {
            let mut in_flight_clean: Vec<String> = Vec::new();
            for (ci, ops) in t.ops.iter().enumerate() {
                for (oi, rec) in ops.iter().enumerate() {
                    let lines = op_lines(&rec.op);
                    if rec.issued_step.is_none() || lines.is_empty() || !matches!(rec.op, Op::Raw(_) | Op::RawList(_)) {
                        continue;
                    }
                    let reached = !find_record(t, &lines).is_empty();
                    if reached && matches!(rec.outcome.as_ref().and_then(|o| o.err()), Some(AErr::Closed)) {
                        in_flight_clean.push(format!("caller {ci} op {oi} {:?}", rec.op));
                    }
                }
            }
            if !in_flight_clean.is_empty() {
                out.push(Violation::new(
                    "C08/in-flight-caller-not-told",
                    format!("{} ended the connection uncleanly while {} was in flight (its request line had reached the server and was not answered), but that caller was told the connection closed cleanly (choices {:?})", fault.name(), in_flight_clean.join(", "), choices),
                    Value::Null,
                ));
            }
            let last_line = t.c2s.split(|&b| b == b'\n').filter(|l| !l.is_empty()).last().map(|l| l.to_vec());
            let complete_last = t.c2s.ends_with(b"\n");
            let any_failed = t.ops.iter().flatten().any(|r| r.issued_step.is_some() && !r.issued_after_fault && r.outcome.as_ref().is_some_and(|o| o.err().is_some()));
            if complete_last && last_line.as_deref() == Some(&b"noidle"[..]) && any_failed && !caller_err {
                out.push(Violation::new(
                    "C08/in-flight-caller-not-told",
                    format!("{} ended the connection uncleanly after the client had written noidle on behalf of a queued request, but no caller saw the failure (choices {:?})", fault.name(), choices),
                    Value::Null,
                ));
            }
        }
    } else {
        st.count("clean_ends");
    }
    if t.handles_dropped && !t.io_dropped {
        out.push(Violation::new("C08/transport-not-released", format!("all handles dropped while idle but the transport was not dropped (choices {:?})", choices), Value::Null));
    }
    out
}

// ---------------------------------------------------------------------------------------------
// scenarios

fn caller(ops: Vec<Op>) -> CallerProg {
    CallerProg { ops, pipeline: false }
}

pub fn s1(tier: Tier) -> Scenario {
    let mut s = Scenario::new(
        "S1-two-callers-list-error",
        vec![
            caller(vec![Op::Raw("cmd A1".into()), Op::RawList(vec!["cmd A2a".into(), "partialfail A2b".into(), "cmd A2c".into()])]),
            caller(vec![Op::Raw("cmd B1".into())]),
        ],
    );
    s.notify_names = vec!["player", "mixer"];
    s.notify_budget = 2;
    s.split_budget = tier.pick(1, 2);
    s
}

pub fn s1p(_tier: Tier) -> Scenario {
    let mut s = Scenario::new(
        "S1p-pipelining-caller",
        vec![
            CallerProg { ops: vec![Op::Raw("cmd A1".into()), Op::Raw("cmd A2".into()), Op::RawList(vec!["cmd A3a".into(), "cmd A3b".into()])], pipeline: true },
            caller(vec![Op::Raw("cmd B1".into())]),
        ],
    );
    s.notify_names = vec!["player"];
    s.notify_budget = 1;
    s.split_budget = 1;
    s
}

pub fn s2(_tier: Tier) -> Scenario {
    let mut s = Scenario::new(
        "S2-cancellation",
        vec![caller(vec![Op::Raw("cmd A1".into())]), CallerProg { ops: vec![Op::Raw("cmd B1".into()), Op::Raw("cmd B2".into())], pipeline: true }],
    );
    s.cancel_budget = 1;
    s.notify_names = vec!["player"];
    s.notify_budget = 1;
    s.split_budget = 1;
    s
}

pub fn s3(tier: Tier) -> Scenario {
    let mut s = Scenario::new("S3-notification-storm", vec![caller(vec![Op::Raw("cmd A1".into())])]);
    s.notify_names = vec!["player", "mixer", "database", "newthing"];
    s.notify_budget = 3;
    s.split_budget = 2;
    s.split_menu = tier.pick(SplitMenu::Lines, SplitMenu::Bytes);
    s
}

pub fn micro(tier: Tier) -> Scenario {
    let mut s = Scenario::new("micro-1-caller-1-notification", vec![caller(vec![Op::Raw("cmd A1".into())])]);
    s.notify_names = vec!["player"];
    s.notify_budget = 1;
    s.split_budget = 1;
    s.split_menu = SplitMenu::Bytes;
    s.tick_anywhere = tier == Tier::Thorough;
    s
}

pub fn micro_non_ascii(tier: Tier) -> Scenario {
    let mut s = micro(tier);
    s.name = "micro-1-caller-1-notification-non-ascii-name".into();
    s.notify_names = vec!["caf\u{e9}_\u{4fa1}"];
    s.split_menu = SplitMenu::Bytes;
    s
}

/// (round 7) the session after a password handshake is an ordinary session too: `password` is a request like
/// any other as far as "one request outstanding" goes
pub fn micro_password(tier: Tier) -> Scenario {
    let mut s = micro(tier);
    s.name = "micro-1-caller-1-notification+password-handshake".into();
    s.connect = ConnectMode::Password("pw x".into());
    s.server.password = Some("pw x".into());
    s
}

/// (round 7) a request far larger than any buffer or server-side list limit the library might know about: a typed
/// list of 180 000 commands (2.3 MB on the wire) is still one request, answered by one reply
pub fn huge_list(_tier: Tier) -> Scenario {
    let mut s = Scenario::new("huge-typed-list-180000", vec![CallerProg { ops: vec![Op::ProbeVec((0..180_000u32).map(|i| 100_000 + i).collect()), Op::Raw("cmd A2".into())], pipeline: false }, caller(vec![Op::Raw("cmd B1".into())])]);
    s.max_steps = 60;
    s
}

/// (round 8) a request line longer than MPD's 4 KiB input buffer, issued from the idling state and from the
/// window after a reply: whatever the client does with it, the session stays legal and idle is resumed
pub fn micro_long_line(tier: Tier) -> Scenario {
    let mut s = micro(tier);
    s.name = "micro-long-request-line".into();
    s.callers = vec![caller(vec![Op::Raw(format!("cmd {}", "x".repeat(5000))), Op::Raw(format!("cmd {}", "y".repeat(4200))), Op::Raw("cmd A3".into())])];
    s.split_menu = SplitMenu::Lines;
    s
}

pub fn micro2(_tier: Tier) -> Scenario {
    let mut s = Scenario::new("micro-2-requests-2-notifications", vec![caller(vec![Op::Raw("cmd A1".into()), Op::Raw("cmd A2".into())])]);
    s.notify_names = vec!["player", "mixer"];
    s.notify_budget = 2;
    s.split_budget = 1;
    s
}

pub fn s4(tier: Tier) -> Scenario {
    let mut s = Scenario::new(
        "S4-faults",
        vec![CallerProg { ops: vec![Op::Raw("cmd A1".into()), Op::RawList(vec!["cmd A2a".into(), "cmd A2b".into()])], pipeline: false }, caller(vec![Op::Raw("cmd B1".into())])],
    );
    s.notify_names = vec!["player"];
    s.notify_budget = 1;
    s.split_budget = 1;
    s.split_menu = tier.pick(SplitMenu::Lines, SplitMenu::Bytes);
    s.faults = vec![FaultKind::Close, FaultKind::CloseRst, FaultKind::ReadErr, FaultKind::ReadErrAfter, FaultKind::WriteErr, FaultKind::Garbage, FaultKind::GarbageOpen, FaultKind::HugeBinary, FaultKind::DropHandles];
    s.fault_budget = 1;
    s.late_probe = true;
    s
}

pub fn micro_fault(tier: Tier) -> Scenario {
    let mut s = Scenario::new("micro-fault-1-caller-1-notification", vec![caller(vec![Op::Raw("cmd A1".into())])]);
    s.notify_names = vec!["player"];
    s.notify_budget = 1;
    s.split_budget = 1;
    s.split_menu = tier.pick(SplitMenu::Lines, SplitMenu::Bytes);
    s.faults = vec![FaultKind::Close, FaultKind::CloseRst, FaultKind::ReadErr, FaultKind::ReadErrAfter, FaultKind::WriteErr, FaultKind::Garbage, FaultKind::GarbageOpen, FaultKind::HugeBinary, FaultKind::DropHandles];
    s.fault_budget = 1;
    s.late_probe = true;
    s
}

/// faults around a caller that gives up (its error has no recipient: still at most one closing event)
pub fn s4c(_tier: Tier) -> Scenario {
    let mut s = Scenario::new("S4c-faults-and-cancellation", vec![caller(vec![Op::Raw("cmd A1".into())]), CallerProg { ops: vec![Op::Raw("cmd B1".into()), Op::Raw("cmd B2".into())], pipeline: true }]);
    s.cancel_budget = 1;
    s.split_budget = 1;
    s.faults = vec![FaultKind::Close, FaultKind::ReadErr, FaultKind::ReadErrAfter, FaultKind::Garbage, FaultKind::WriteErr, FaultKind::HugeBinary];
    s.fault_budget = 1;
    s.late_probe = true;
    s
}

/// a server that refuses `idle` (restricted default permissions, nobody authenticated): from the
/// client's point of view the session ends there; nothing may hang
/// faults from the very first moment of the connection's life: the greeting is still on its way when the fault
/// strikes, so the run loop's first write / first read is the one that fails (round 6: an early exit of the
/// loop that skips what every later exit does)
pub fn early_fault(tier: Tier) -> Scenario {
    let mut s = micro_fault(tier);
    s.name = "micro-fault+greeting-in-flight".into();
    s.greeting_upfront = false;
    s.notify_budget = 0;
    s
}

/// a multi-request operation (album art in three chunks) under faults: a failure while one of ITS requests is
/// queued or in flight is that operation's failure, never "this song has no picture"
pub fn art_fault(_tier: Tier) -> Scenario {
    let mut s = Scenario::new("C08-album-art-under-faults", vec![caller(vec![Op::AlbumArt("dir/song one.flac".into())]), caller(vec![Op::Raw("cmd B1".into())])]);
    s.server.embedded = crate::mpdref::server::PicSource::Data((0..11u8).map(|i| i.wrapping_mul(37) ^ 0x0a).collect(), Some("image/png".into()));
    s.server.cover = crate::mpdref::server::PicSource::Empty;
    s.server.binary_limit = 4;
    s.max_steps = 400;
    s.split_budget = 1;
    s.faults = vec![FaultKind::Close, FaultKind::ReadErr, FaultKind::ReadErrAfter, FaultKind::Garbage, FaultKind::WriteErr];
    s.fault_budget = 1;
    s.late_probe = true;
    s
}

pub fn idle_refused(_tier: Tier) -> Scenario {
    let mut s = Scenario::new("server-refuses-idle", vec![caller(vec![Op::Raw("cmd A1".into()), Op::Raw("cmd A2".into())]), caller(vec![Op::Raw("cmd B1".into())])]);
    s.server.password = Some("secret".into());
    s.split_budget = 1;
    s.split_menu = SplitMenu::Bytes;
    s.long_tick_budget = 0;
    s
}

/// judge of `idle_refused`: every request resolves, none with a reply it cannot have, the client
/// reports itself closed and the event stream ends after at most one closing event
pub fn oracle_idle_refused(_scn: &Scenario, t: &Trace, st: &mut ExploreStats) -> Vec<Violation> {
    let mut out = Vec::new();
    let choices = t.choice_names();
    st.count("idle_refused_sessions");
    for (ci, ops) in t.ops.iter().enumerate() {
        for (oi, rec) in ops.iter().enumerate() {
            if rec.issued_step.is_none() || rec.cancelled {
                continue;
            }
            match &rec.outcome {
                None => out.push(Violation::new("C08/request-hangs", format!("caller {ci} op {oi} {:?} never resolved after the server refused idle (choices {choices:?})", rec.op), Value::Null)),
                Some(o) if o.is_ok() => {
                    if find_record(t, &op_lines(&rec.op)).is_empty() {
                        out.push(Violation::new("C01/reply-without-request", format!("caller {ci} op {oi} resolved with {} although its request never reached the server", o.short()), Value::Null));
                    }
                }
                _ => {}
            }
        }
    }
    if t.events.iter().filter(|e| e.text.starts_with("closed:")).count() > 1 {
        out.push(Violation::new("C08/several-closing-events", "more than one ConnectionClosed event".to_string(), Value::Null));
    }
    for v in &t.server.violations {
        out.push(Violation::new("C05/line-during-idle", format!("{v} (choices {choices:?})"), Value::Null));
    }
    out
}

pub fn s5(_tier: Tier) -> Scenario {
    let mut s = Scenario::new(
        "S5-three-callers",
        vec![caller(vec![Op::Raw("cmd A1".into())]), caller(vec![Op::RawList(vec!["cmd B1a".into(), "cmd B1b".into()])]), caller(vec![Op::Raw("partialfail C1".into()), Op::RawList(vec!["cmd C2a".into(), "fail C2b".into()])])],
    );
    s.notify_names = vec!["player"];
    s.notify_budget = 1;
    s.split_budget = 1;
    s
}

/// byte-identical requests with a side effect from two handles, queued behind each other
pub fn s6(_tier: Tier) -> Scenario {
    let mut s = Scenario::new(
        "S6-identical-requests",
        vec![CallerProg { ops: vec![Op::Raw("count next".into()), Op::Raw("count next".into())], pipeline: true }, caller(vec![Op::Raw("count next".into())]), caller(vec![Op::Raw("cmd C1".into())])],
    );
    s.notify_names = vec!["player"];
    s.notify_budget = 1;
    s.split_budget = 1;
    s
}

pub fn micro_stall(_tier: Tier) -> Scenario {
    let mut s = Scenario::new("micro-stalled-writes", vec![caller(vec![Op::Raw("cmd A1".into()), Op::Raw("cmd A2".into())])]);
    s.notify_names = vec!["player"];
    s.notify_budget = 1;
    s.split_budget = 0;
    s.stall_budget = 1;
    // time may pass while a write is stalled (a timeout around a send must not cut a line in two)
    s.tick_anywhere = true;
    s.loose_tick_budget = 2;
    s
}

pub fn micro_ticks(_tier: Tier) -> Scenario {
    let mut s = Scenario::new("micro-ticks-anywhere", vec![caller(vec![Op::Raw("cmd A1".into()), Op::Raw("cmd A2".into())])]);
    s.notify_names = vec!["player"];
    s.notify_budget = 1;
    s.split_budget = 1;
    s.tick_anywhere = true;
    s.loose_tick_budget = 2;
    s
}

pub fn with_short_writes(mut s: Scenario, chunk: usize) -> Scenario {
    s.name = format!("{}+short-writes-{chunk}", s.name);
    s.write_chunk = Some(chunk);
    s
}

pub fn with_fresh_clones(mut s: Scenario) -> Scenario {
    s.name = format!("{}+fresh-clone-per-request", s.name);
    s.fresh_clone_per_op = true;
    s
}

/// one caller that gives up once, with a notification around (C04: events must survive it)
pub fn micro_cancel(_tier: Tier) -> Scenario {
    let mut s = Scenario::new("micro-cancellation", vec![caller(vec![Op::Raw("cmd A1".into()), Op::Raw("cmd A2".into())])]);
    s.notify_names = vec!["player", "mixer"];
    s.notify_budget = 2;
    s.split_budget = 1;
    s.cancel_budget = 1;
    s
}

/// the last handle goes away at any point of a fault-free session (legality of what is written then)
pub fn with_handle_drop(mut s: Scenario) -> Scenario {
    s.name = format!("{}+last-handle-dropped", s.name);
    s.faults = vec![FaultKind::DropHandles];
    s.fault_budget = 1;
    s
}

pub fn with_dropped_events(mut s: Scenario) -> Scenario {
    s.name = format!("{}+events-receiver-dropped", s.name);
    s.drop_events_rx = true;
    s
}

// ---------------------------------------------------------------------------------------------
// driver

pub struct Plan {
    pub scn: Scenario,
    pub bound: usize,
}

/// Connections do not share anything (round 7: a process-wide / thread-local cache that also carries the
/// half-parsed response of an interrupted receive). A two-connection history, deterministic and judged by the
/// property's own oracle: a reference session B is executed first thing in the process; then a connection A
/// that dies in the middle of a reply (after a complete line of an idle reply / of a command's reply / of a
/// list's reply); then B again. B must be observed exactly as before, and must satisfy the oracle.
/// The explorer re-executes prefixes and relies on executions being independent; when this probe fails the
/// exploration is not run (it would only trip over its own determinism check) and the probe's verdict stands.
pub fn independence_probe(id: &str, oracle: &Oracle) -> Violations {
    let mut viol = Violations::default();
    let b = s1(Tier::Quick);
    let run_b = || run_once(&b, &mut NameChooser { names: vec![], cursor: 0, repeats: 0 }).unwrap_or_else(|e| machinery_error(&format!("independence probe: reference session: {e}")));
    let b0 = run_b();
    let mut a = micro_fault(Tier::Quick);
    a.split_menu = SplitMenu::Lines;
    let mut a_list = s4(Tier::Quick);
    a_list.split_menu = SplitMenu::Lines;
    let scripts: Vec<(&Scenario, &str, Vec<&str>)> = vec![
        (&a, "an idle reply cut after its first line", vec!["Notify(player)?", "Close(16)?", "DeliverAll?"]),
        (&a, "a command's reply cut after its first line", vec!["Issue(0)?", "DeliverAll?", "Close(13)?", "DeliverAll?"]),
        (&a, "a read error behind the first line of a command's reply", vec!["Issue(0)?", "DeliverAll?", "ReadErrAfter(13)?", "DeliverAll?"]),
        (&a_list, "a list's reply cut after its first frame", vec!["Issue(0)?", "DeliverAll?", "DeliverAll?", "Issue(0)?", "DeliverAll?", "Close(22)?", "DeliverAll?"]),
    ];
    for (scn, what, script) in scripts {
        let mut chooser = NameChooser { names: script.iter().map(|s| s.to_string()).collect(), cursor: 0, repeats: 0 };
        let ta = match run_once(scn, &mut chooser) {
            Ok(t) => t,
            Err(_) => continue,
        };
        let died = ta.fault.is_some();
        let b1 = run_b();
        let same = format!("{:?}", b1.log) == format!("{:?}", b0.log);
        let mut vs: Vec<Violation> = oracle(&b, &b1, &mut ExploreStats::default());
        if !same {
            vs.push(Violation::new(
                format!("{id}/connection-depends-on-an-earlier-connection"),
                format!("a session is observed differently after another connection of the same process ended with {what} (fault struck: {died}): first differing observation {:?} vs {:?}", b1.log.iter().zip(b0.log.iter()).find(|(x, y)| format!("{x:?}") != format!("{y:?}")).map(|p| format!("{:?}", p.0)), b1.log.iter().zip(b0.log.iter()).find(|(x, y)| format!("{x:?}") != format!("{y:?}")).map(|p| format!("{:?}", p.1))),
                Value::Null,
            ));
        }
        for mut v in vs {
            v.what = format!("[two connections in one process; the first ended with {what}] {}", v.what);
            v.case = json!({"engine": "loopmc", "independence_probe": what});
            viol.push(v);
        }
    }
    viol
}

pub fn run_plans(ctx: &Ctx, plans: Vec<Plan>, oracle: &Oracle, wall_cap: Duration, rule: &str, nontrivial_counters: &[&str]) -> (Coverage, Violations) {
    {
        let probe = independence_probe(ctx.id, oracle);
        if !probe.by_sig.is_empty() {
            let mut cov = Coverage::default();
            cov.rule = "the independence probe failed (two connections in one process influence each other): the schedule exploration, which relies on independent executions, was not run".to_string();
            cov.evaluations = 9;
            std::process::exit(finish(ctx, cov, probe));
        }
    }
    let mut cov = Coverage::default();
    let mut viol = Violations::default();
    let mut per_scenario = Vec::new();
    let mut nontrivial = 0u64;
    let mut all_complete = true;
    let deadline = Instant::now() + wall_cap;
    for plan in &plans {
        let budget = Budget { max_executions: u64::MAX, deadline };
        // explore at the requested bound; if the wall-clock cap is hit, fall back to bound-1
        // (exponentially smaller) without a cap so that a *completed* bound can be reported
        let mut completed: Option<usize> = None;
        let mut capped_attempt: Option<Value> = None;
        let mut st = explore(&plan.scn, plan.bound, oracle, &budget);
        if st.capped {
            all_complete = false;
            capped_attempt = Some(json!({"bound": plan.bound, "executions_before_cap": st.executions}));
            let found = std::mem::take(&mut st.viol);
            viol.merge(found);
            if plan.bound > 0 {
                let far = Budget { max_executions: u64::MAX, deadline: Instant::now() + Duration::from_secs(3600) };
                st = explore(&plan.scn, plan.bound - 1, oracle, &far);
                completed = Some(plan.bound - 1);
            }
        } else {
            completed = Some(plan.bound);
        }
        cov.evaluations += st.executions;
        cov.transitions += st.transitions;
        cov.states += st.states.len() as u64;
        cov.traces += st.executions;
        let _ = nontrivial_counters;
        nontrivial += st.nontrivial;
        per_scenario.push(json!({
            "scenario": plan.scn.to_json(),
            "deviation_bound_requested": plan.bound,
            "deviation_bound_completed": completed,
            "capped_attempt": capped_attempt,
            "executions": st.executions,
            "events_executed": st.transitions,
            "distinct_visible_states": st.states.len(),
            "distinct_final_transcripts": st.final_transcripts.len(),
            "max_depth": st.max_depth,
            "executions_by_deviations": st.by_deviation,
            "counters": st.counters,
            "step_cap_hits": st.step_cap_hits,
            "violating_schedules_replayed_identically": st.violations_replayed,
        }));
        for s in &st.samples {
            if cov.samples.len() < 6 {
                cov.samples.push(s.clone());
            }
        }
        viol.merge(st.viol);
    }
    cov.distinct_nontrivial = nontrivial;
    cov.rule = rule.to_string();
    cov.exhaustive = all_complete;
    cov.set("scenarios", Value::Array(per_scenario));
    cov.set("state_meaning", json!("states = distinct harness-visible states (server idle flag, pending changes, bytes in flight, last client line, caller status vector, events seen, fault flags), summed over scenarios; transitions = harness events executed on the real client; every execution is a trace of the implementation"));
    cov.set("tier", json!(ctx.tier.as_str()));
    cov.set("select_poll_order", json!(format!("{:?}, {} branches (calibrated)", poll_order_mode(), SELECT_BRANCHES.load(std::sync::atomic::Ordering::Relaxed))));
    (cov, viol)
}

pub fn find_scenario_any(name: &str) -> Option<Scenario> {
    find_scenario(name, Tier::Quick).or_else(|| find_scenario(name, Tier::Thorough))
}

fn find_scenario(name: &str, tier: Tier) -> Option<Scenario> {
    let mut all = vec![s1(tier), s1p(tier), s2(tier), s3(tier), micro(tier), micro2(tier), s4(tier), micro_fault(tier), s5(tier), micro_ticks(tier), micro_stall(tier), micro_cancel(tier), s6(tier), s4c(tier), idle_refused(tier), art_fault(tier), early_fault(tier), micro_non_ascii(tier), micro_password(tier), huge_list(tier), micro_long_line(tier)];
    for base in [micro(Tier::Quick), micro2(Tier::Quick)] {
        let mut e = base.clone();
        e.split_menu = SplitMenu::Lines;
        e.race_budget = 0;
        let mut l = e.clone();
        l.name = format!("{}+lazy-server", e.name);
        l.lazy_server = true;
        all.push(l);
    }
    let dropped: Vec<Scenario> = all.iter().cloned().map(with_dropped_events).collect();
    let short: Vec<Scenario> = all.iter().cloned().flat_map(|s| [with_short_writes(s.clone(), 1), with_short_writes(s.clone(), 3), with_short_writes(s, 7)]).collect();
    let fresh: Vec<Scenario> = all.iter().cloned().map(with_fresh_clones).collect();
    let hdrop: Vec<Scenario> = all.iter().cloned().map(with_handle_drop).collect();
    all.extend(dropped);
    all.extend(short);
    all.extend(fresh);
    all.extend(hdrop);
    for count in [90usize, 400, 1500] {
        all.push(never_polled_storm(count).0);
    }
    all.into_iter().find(|s| s.name == name)
}

pub fn replay(id: &str, case: &Value) -> i32 {
    let name = case["scenario"]["name"].as_str().unwrap_or("");
    let names: Vec<String> = case["choices"].as_array().map(|a| a.iter().filter_map(|x| x.as_str().map(|s| s.to_string())).collect()).unwrap_or_default();
    let scn = [Tier::Quick, Tier::Thorough].iter().find_map(|t| {
        find_scenario(name, *t).filter(|s| s.to_json() == case["scenario"])
    });
    let storm = [Tier::Quick, Tier::Thorough].iter().flat_map(|t| storm_variants(*t)).map(|(v, c, r)| storm_scenario(v, c, r).0).find(|s| s.name == name && s.to_json()["notify_budget"] == case["scenario"]["notify_budget"]);
    let c08_storm = if name == "C08-storm-then-read-error" {
        let (mut scn, _) = storm_scenario("names-in-order", 90, false);
        scn.name = name.to_string();
        scn.faults = vec![FaultKind::ReadErr];
        scn.fault_budget = 1;
        Some(scn)
    } else {
        None
    };
    let Some(scn) = scn.or(storm).or(c08_storm).or_else(|| find_scenario(name, Tier::Thorough)) else {
        println!("replay: unknown scenario {name}");
        return 2;
    };
    println!("replay {id}: scenario {} choices {:?}", scn.name, names);
    let oracle: &Oracle = match id {
        "C01" => &oracle_c01,
        "C04" => &oracle_c04,
        "C05" => &oracle_c05,
        "C08" | "C05" if scn.name == "server-refuses-idle" => &oracle_idle_refused,
        "C08" => &oracle_c08,
        _ => return 2,
    };
    replay_names(&scn, names, oracle)
}

pub fn run_c01(tier: Tier) -> i32 {
    let mut ctx = Ctx::new("C01", tier, "model_checking");
    ctx.assume("the simulated server (mpdref::server) implements MPD's idle/noidle/command-list rules; replies identify the request line they answer");
    ctx.assume("one harness event per step, then run to quiescence: covers both outcomes of a select! with both branches ready (DESIGN.md section 5)");
    let b = tier.pick(4, 5);
    let plans = vec![
        Plan { scn: micro(tier), bound: 99 },
        Plan { scn: micro_ticks(tier), bound: tier.pick(4, 6) },
        Plan { scn: micro2(tier), bound: tier.pick(5, 7) },
        Plan { scn: s1(tier), bound: b },
        Plan { scn: s1p(tier), bound: b },
        Plan { scn: s2(tier), bound: b },
        Plan { scn: s5(tier), bound: tier.pick(3, 4) },
        Plan { scn: with_dropped_events(s1(tier)), bound: tier.pick(2, 3) },
        Plan { scn: with_short_writes(s1(tier), 3), bound: tier.pick(2, 3) },
        Plan { scn: micro_stall(tier), bound: tier.pick(4, 5) },
        Plan { scn: with_fresh_clones(s2(tier)), bound: tier.pick(3, 4) },
        Plan { scn: micro_cancel(tier), bound: tier.pick(4, 5) },
        Plan { scn: s6(tier), bound: tier.pick(3, 4) },
    ];
    let (cov, viol) = run_plans(
        &ctx,
        plans,
        &oracle_c01,
        Duration::from_secs(tier.pick(40, 280)),
        "all schedules of each scenario with at most `deviation_bound` departures from the default schedule (micro scenarios: unbounded); non-trivial = executions in which two requests were outstanding at once or a request was issued after a partial delivery or an op was cancelled",
        &["two_requests_outstanding", "issue_after_partial_delivery", "cancelled_ops"],
    );
    let (mut cov, mut viol) = (cov, viol);
    run_never_polled_storms(tier, &oracle_c01, &mut cov, &mut viol);
    finish(&ctx, cov, viol)
}

/// Directed deep histories with an application that keeps `ConnectionEvents` alive but never
/// polls it: hundreds of changes, a request every few idle cycles. Requests must still resolve
/// (C01) and the client must keep idling (C05).
pub fn run_never_polled_storms(tier: Tier, oracle: &Oracle, cov: &mut Coverage, viol: &mut Violations) {
    let mut runs = Vec::new();
    for count in [90usize, tier.pick(400, 1500)] {
        let (scn, script) = never_polled_storm(count);
        let mut chooser = NameChooser { names: script, cursor: 0, repeats: 0 };
        let t = run_once(&scn, &mut chooser).unwrap_or_else(|e| machinery_error(&format!("never-polled storm: {e}")));
        let mut st = ExploreStats::default();
        for mut v in oracle(&scn, &t, &mut st) {
            v.case = t.case_json(&scn);
            viol.push(v);
        }
        cov.evaluations += 1;
        cov.transitions += t.points.len() as u64;
        cov.distinct_nontrivial += 1;
        runs.push(json!({"scenario": scn.name, "changes_reported_by_server": t.server.changed.len(), "requests_issued": t.ops.iter().flatten().filter(|r| r.issued_step.is_some()).count(), "requests_resolved": t.ops.iter().flatten().filter(|r| r.outcome.is_some()).count(), "steps": t.points.len()}));
    }
    cov.set("never_polled_event_storms", Value::Array(runs));
}

pub fn never_polled_storm(count: usize) -> (Scenario, Vec<String>) {
    let requests = count / 10 + 2;
    let mut scn = Scenario::new(&format!("storm-events-never-polled-{count}"), vec![CallerProg { ops: (0..requests).map(|i| Op::Raw(format!("cmd N{i}"))).collect(), pipeline: true }]);
    let mut names: Vec<&'static str> = crate::mpdref::server::IDLE_NAMES.to_vec();
    names.push("newthing");
    scn.notify_names = names.clone();
    scn.never_poll_events = true;
    scn.max_steps = 6 * count + 200;
    scn.long_tick_budget = 0;
    let mut script: Vec<String> = Vec::new();
    for k in 0..count {
        script.push(format!("Notify({})", names[k % names.len()]));
        if k % 3 == 2 {
            script.push(format!("Notify({})", names[(k + 5) % names.len()]));
        }
        // optional: a client that has stopped reading or idling leaves nothing to deliver
        script.push("DeliverAll?".into());
        if k % 10 == 9 {
            script.extend(["Issue(0)?".to_string(), "DeliverAll?".into(), "DeliverAll?".into(), "Tick*".into()]);
        }
    }
    script.extend(["Issue(0)?".to_string(), "DeliverAll?".into(), "DeliverAll?".into(), "Tick*".into()]);
    scn.notify_budget = script.iter().filter(|x| x.starts_with("Notify")).count();
    (scn, script)
}

pub fn run_c04(tier: Tier) -> i32 {
    let mut ctx = Ctx::new("C04", tier, "model_checking");
    ctx.assume("the simulated server reports pending changes in MPD's fixed subsystem order and collapses repeated changes of one subsystem, as MPD's idle flags do");
    let plans = vec![
        Plan { scn: micro(tier), bound: 99 },
        // (round 7) names outside ASCII (a subsystem this library has never heard of), split at every byte -
        // also inside a character
        Plan { scn: micro_non_ascii(tier), bound: 99 },
        Plan { scn: micro_ticks(tier), bound: tier.pick(4, 6) },
        Plan { scn: micro2(tier), bound: tier.pick(5, 7) },
        Plan { scn: s3(tier), bound: tier.pick(4, 5) },
        Plan { scn: s1(tier), bound: tier.pick(4, 5) },
        Plan { scn: s5(tier), bound: tier.pick(3, 4) },
        // the connection dying right after an idle reply was read must not swallow its events
        Plan { scn: micro_fault(tier), bound: 99 },
        Plan { scn: s4(tier), bound: tier.pick(3, 4) },
        // callers that give up around a notification (the reply to their noidle may carry changes)
        Plan { scn: micro_cancel(tier), bound: tier.pick(4, 5) },
        Plan { scn: s2(tier), bound: tier.pick(3, 4) },
    ];
    let (cov, viol) = run_plans(
        &ctx,
        plans,
        &oracle_c04,
        Duration::from_secs(tier.pick(40, 280)),
        "all schedules within the deviation bound; non-trivial = executions in which the server reported at least one change (incl. idle replies with several changed lines)",
        &["executions_with_notifications"],
    );
    let (mut cov, mut viol) = (cov, viol);
    // directed deep histories: many changes over many idle cycles while the application does not
    // poll the event receiver (and a request now and then)
    let mut storm_runs = Vec::new();
    for (variant, count, with_requests) in storm_variants(tier) {
        let (scn, script) = storm_scenario(variant, count, with_requests);
        let mut chooser = NameChooser { names: script.clone(), cursor: 0, repeats: 0 };
        let t = run_once(&scn, &mut chooser).unwrap_or_else(|e| machinery_error(&format!("storm scenario: {e}")));
        let mut st = ExploreStats::default();
        for mut v in oracle_c04(&scn, &t, &mut st) {
            v.case = t.case_json(&scn);
            viol.push(v);
        }
        cov.evaluations += 1;
        cov.transitions += t.points.len() as u64;
        cov.distinct_nontrivial += 1;
        storm_runs.push(json!({"scenario": scn.name, "changes_reported_by_server": t.server.changed.len(), "events_received_at_the_end": t.events.len(), "steps": t.points.len()}));
    }
    cov.set("unpolled_event_storms", Value::Array(storm_runs));
    finish(&ctx, cov, viol)
}

pub fn storm_variants(tier: Tier) -> Vec<(&'static str, usize, bool)> {
    vec![("names-in-order", 45usize, false), ("names-reversed", 45, false), ("with-requests", 60, true), ("long", tier.pick(300, 2000), false)]
}

/// many changes over many idle cycles, the application polls the event receiver only at the end
pub fn storm_scenario(variant: &str, count: usize, with_requests: bool) -> (Scenario, Vec<String>) {
    let mut scn = Scenario::new(&format!("C04-storm-unpolled-{variant}"), vec![caller((0..8).map(|i| Op::Raw(format!("cmd S{i}"))).collect())]);
    let mut names: Vec<&'static str> = crate::mpdref::server::IDLE_NAMES.to_vec();
    names.push("newthing");
    // names the library does not know, spelt in ways a lenient parser would "normalise"
    names.extend(["Player", "MIXER", "Stored_Playlist", "Fingerprint", "two words", "trailing blank ", " leading blank", "x-y_z"]);
    if variant == "names-reversed" {
        names.reverse();
    }
    scn.notify_names = names.clone();
    scn.poll_events_at_end_only = true;
    scn.max_steps = 4 * count + 100;
    let mut script: Vec<String> = Vec::new();
    for k in 0..count {
        script.push(format!("Notify({})", names[k % names.len()]));
        if k % 3 == 2 {
            // let two changes pile up every third round: the next idle reply lists several
            script.push(format!("Notify({})", names[(k + 5) % names.len()]));
        }
        script.push("DeliverAll".into());
        if with_requests && k % 10 == 9 {
            script.extend(["Issue(0)".to_string(), "DeliverAll".into(), "DeliverAll".into(), "Tick*".into()]);
        }
    }
    scn.notify_budget = script.iter().filter(|x| x.starts_with("Notify")).count();
    (scn, script)
}

/// Empirical validation of the eager-server reduction (DESIGN.md section 5): every
/// client-observable trace of a *lazy* server (request lines processed at explicit ServerStep
/// events, in any interleaving with the other events) must also occur with the eager server.
pub fn lazy_cross_check(tier: Tier, oracle: &Oracle) -> (Value, Violations) {
    let far = || Budget { max_executions: u64::MAX, deadline: Instant::now() + Duration::from_secs(3600) };
    let mut report = Vec::new();
    let mut viol = Violations::default();
    for (mut eager, lazy_bound) in [(micro(Tier::Quick), tier.pick(4, 5)), (micro2(Tier::Quick), tier.pick(3, 4))] {
        eager.split_menu = SplitMenu::Lines;
        eager.race_budget = 0;
        let mut lazy = eager.clone();
        lazy.name = format!("{}+lazy-server", eager.name);
        lazy.lazy_server = true;
        let eager_bound = if eager.name.starts_with("micro-1") { 99 } else { lazy_bound + 2 };
        // changes may also happen before the server has seen the first idle: with the eager server
        // these are the scenario's initial notifications (every subset of the names)
        let names = eager.notify_names.clone();
        let mut e = ExploreStats::default();
        for mask in 0..(1usize << names.len()) {
            let init: Vec<&'static str> = names.iter().enumerate().filter(|(i, _)| mask & (1 << i) != 0).map(|(_, n)| *n).collect();
            if init.len() > eager.notify_budget {
                continue;
            }
            let mut v = eager.clone();
            v.initial_notifications = init;
            e = e.merge(explore(&v, eager_bound, oracle, &far()));
        }
        let l = explore(&lazy, lazy_bound, oracle, &far());
        let missing = l.projections.difference(&e.projections).count();
        report.push(json!({
            "scenario": eager.name,
            "eager": {"deviation_bound": eager_bound, "executions": e.executions, "distinct_client_observable_traces": e.projections.len()},
            "lazy": {"deviation_bound": lazy_bound, "executions": l.executions, "distinct_client_observable_traces": l.projections.len()},
            "lazy_traces_not_seen_with_eager_server": missing,
        }));
        if missing > 0 {
            for h in l.projections.difference(&e.projections).take(3) {
                eprintln!("lazy-only trace, e.g. choices {:?}", l.projection_examples.get(h));
            }
            // Not a verdict and not fatal: it says that for THIS tree the eager server does not stand
            // for the lazy one (e.g. code whose behaviour depends on how long a reply takes); the
            // violations found by either exploration are still real.
            println!("WARNING: eager-server reduction not confirmed on {}: {missing} client-observable traces of the lazy server do not occur with the eager server", eager.name);
        }
        viol.merge(e.viol);
        viol.merge(l.viol);
    }
    (Value::Array(report), viol)
}

pub fn run_c05(tier: Tier) -> i32 {
    let mut ctx = Ctx::new("C05", tier, "model_checking");
    ctx.assume("legality is judged by the simulated server at the moment of every write (eager processing; DESIGN.md section 5 argues this loses no client-observable behaviour)");
    let plans = vec![
        Plan { scn: micro(tier), bound: 99 },
        Plan { scn: micro_ticks(tier), bound: tier.pick(4, 6) },
        Plan { scn: micro2(tier), bound: tier.pick(5, 7) },
        Plan { scn: s1(tier), bound: tier.pick(4, 5) },
        Plan { scn: s1p(tier), bound: tier.pick(4, 5) },
        Plan { scn: s2(tier), bound: tier.pick(4, 5) },
        Plan { scn: s3(tier), bound: tier.pick(4, 5) },
        Plan { scn: s5(tier), bound: tier.pick(3, 4) },
        Plan { scn: with_dropped_events(s3(tier)), bound: tier.pick(2, 3) },
        Plan { scn: with_short_writes(s1(tier), 1), bound: tier.pick(2, 3) },
        Plan { scn: with_short_writes(s3(tier), 7), bound: tier.pick(2, 3) },
        // what is written when the last handle goes away (e.g. a farewell while the server idles)
        Plan { scn: with_handle_drop(micro(tier)), bound: 99 },
        Plan { scn: with_handle_drop(s1(tier)), bound: tier.pick(3, 4) },
        Plan { scn: micro_stall(tier), bound: tier.pick(4, 5) },
        Plan { scn: micro_password(tier), bound: tier.pick(4, 6) },
        Plan { scn: huge_list(tier), bound: 0 },
        Plan { scn: micro_long_line(tier), bound: tier.pick(3, 4) },
    ];
    let (cov, viol) = run_plans(
        &ctx,
        plans,
        &oracle_c05,
        Duration::from_secs(tier.pick(40, 280)),
        "all schedules within the deviation bound; non-trivial = executions containing the noidle/changed race or a checked re-idle window",
        &["noidle_changed_race", "reidle_windows_checked"],
    );
    let (mut cov, mut viol) = (cov, viol);
    // legality as judged by a lazily processing server, and validation of the eager reduction
    let lazy_oracle = |scn: &Scenario, t: &Trace, st: &mut ExploreStats| -> Vec<Violation> {
        if scn.lazy_server {
            // only the clauses that do not depend on eager bookkeeping: what the server saw
            let _ = st;
            t.server.violations.iter().map(|v| Violation::new("C05/line-during-idle", format!("[lazy server] {v} (choices {:?})", t.choice_names()), Value::Null)).collect()
        } else {
            oracle_c05(scn, t, st)
        }
    };
    let (lazy_report, lazy_viol) = lazy_cross_check(tier, &lazy_oracle);
    cov.set("eager_vs_lazy_server", lazy_report);
    viol.merge(lazy_viol);
    run_never_polled_storms(tier, &oracle_c05, &mut cov, &mut viol);
    // a server that refuses `idle`: whatever the client does next must be legal and must not hang
    {
        let far = Budget { max_executions: u64::MAX, deadline: Instant::now() + Duration::from_secs(3600) };
        let st = explore(&idle_refused(tier), tier.pick(4, 5), &oracle_idle_refused, &far);
        cov.evaluations += st.executions;
        cov.transitions += st.transitions;
        cov.set("server_refuses_idle", json!({"executions": st.executions, "deviation_bound": tier.pick(4, 5)}));
        viol.merge(st.viol);
    }
    finish(&ctx, cov, viol)
}

pub fn run_c08(tier: Tier) -> i32 {
    let mut ctx = Ctx::new("C08", tier, "fault_enumeration");
    ctx.assume("fault model: peer close after p more bytes (every offset), persistent read error, persistent write error, one injected malformed line, malformed bytes without a line end followed by silence, all handles dropped while idle; writes after a peer close are accepted silently");
    ctx.assume("'the connection ends' = the client ran into the fault (EOF/read error/write error returned to it, garbage read, handles dropped)");
    let plans = vec![
        Plan { scn: micro_fault(tier), bound: 99 },
        Plan { scn: s4(tier), bound: tier.pick(3, 4) },
        Plan { scn: with_dropped_events(s4(tier)), bound: tier.pick(2, 3) },
        Plan { scn: s4c(tier), bound: tier.pick(3, 4) },
        Plan { scn: art_fault(tier), bound: tier.pick(2, 3) },
        Plan { scn: early_fault(tier), bound: tier.pick(3, 4) },
        Plan { scn: with_dropped_events(early_fault(tier)), bound: tier.pick(2, 3) },
    ];
    let (cov, viol) = run_plans(
        &ctx,
        plans,
        &oracle_c08,
        Duration::from_secs(tier.pick(40, 280)),
        "every schedule within the deviation bound x one fault of each kind at every step (Close at every line boundary / byte offset of the bytes in flight); non-trivial = executions in which the client ran into the fault (clean and unclean ends)",
        &["unclean_ends", "clean_ends"],
    );
    let (mut cov, mut viol) = (cov, viol);
    // a session that ends because the server refuses `idle`
    {
        let far = Budget { max_executions: u64::MAX, deadline: Instant::now() + Duration::from_secs(3600) };
        let st = explore(&idle_refused(tier), tier.pick(4, 5), &oracle_idle_refused, &far);
        cov.evaluations += st.executions;
        cov.transitions += st.transitions;
        cov.states += st.states.len() as u64;
        cov.distinct_nontrivial += st.executions;
        cov.set("server_refuses_idle", json!({"executions": st.executions, "deviation_bound": tier.pick(4, 5), "events_executed": st.transitions}));
        viol.merge(st.viol);
    }
    // a failure after many changes nobody has collected yet: the closing event must still arrive
    {
        let (mut scn, mut script) = storm_scenario("names-in-order", 90, false);
        scn.name = "C08-storm-then-read-error".into();
        scn.faults = vec![FaultKind::ReadErr];
        scn.fault_budget = 1;
        script.push("ReadErr".into());
        let mut chooser = NameChooser { names: script, cursor: 0, repeats: 0 };
        let t = run_once(&scn, &mut chooser).unwrap_or_else(|e| machinery_error(&format!("C08 storm: {e}")));
        let mut st = ExploreStats::default();
        for mut v in oracle_c08(&scn, &t, &mut st) {
            v.case = t.case_json(&scn);
            viol.push(v);
        }
        if !t.events.iter().any(|e| e.text.starts_with("closed:")) {
            let mut v = Violation::new("C08/failure-not-surfaced", format!("a read error while idling after {} uncollected changes: no closing event among the {} events the application then collects", t.server.changed.len(), t.events.len()), Value::Null);
            v.case = t.case_json(&scn);
            viol.push(v);
        }
        cov.evaluations += 1;
        cov.transitions += t.points.len() as u64;
        cov.set("storm_then_fault", json!({"changes": t.server.changed.len(), "events_collected": t.events.len()}));
    }
    finish(&ctx, cov, viol)
}
