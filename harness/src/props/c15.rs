//! C15 — predefined commands render to the documented MPD request for all parameters.
//!
//! Every constructor / builder path of every predefined command x boundary parameter values; the
//! written line is split by the tokenizer port and interpreted semantically against an expectation
//! table written from the MPD protocol reference.

use std::{
    ops::Bound,
    time::Duration,
};

use mpd_client::{
    commands::{self as c, Command, ReplayGainMode, SeekMode, SingleMode, Song, SongId, SongPosition},
    filter::Filter,
    tag::Tag,
};
use serde_json::{json, Value};

use crate::{common::*, io::wire_of_command, mpdref::tokenizer::tokenize};

/// expectation for one argument
#[derive(Clone, Debug)]
enum A {
    /// exactly these bytes
    S(String),
    /// a number, compared numerically
    N(u128),
    /// a time in seconds within 0.5 ms of this duration, with an optional sign prefix
    T(Option<char>, Duration),
    /// a range denoting the same positions as (start, end) bounds
    R(Bound<usize>, Bound<usize>),
    /// some filter expression (its meaning is C11)
    Filter,
}

struct Case {
    what: String,
    cmd: mpd_client::protocol::Command,
    name: &'static str,
    args: Vec<A>,
    /// another request the protocol reference documents as meaning the same
    alt_args: Option<Vec<A>>,
}

fn case(what: impl Into<String>, cmd: impl Command, name: &'static str, args: Vec<A>) -> Case {
    Case { what: what.into(), cmd: cmd.command(), name, args, alt_args: None }
}

/// a case with two documented spellings (e.g. an optional argument whose default is the value)
fn case2(what: impl Into<String>, cmd: impl Command, name: &'static str, args: Vec<A>, alt: Vec<A>) -> Case {
    Case { what: what.into(), cmd: cmd.command(), name, args, alt_args: Some(alt) }
}

/// the filter argument exactly as a fresh `find` renders it (its meaning is C11's business)
fn filter_arg(f: &Filter) -> A {
    let w = wire_of_command(c::Find::new(f.clone()).command());
    let req = tokenize(&w[..w.len() - 1]).expect("find with a plain filter tokenizes");
    A::S(String::from_utf8(req.args[0].clone()).expect("filter is UTF-8"))
}

fn s(x: &str) -> A {
    A::S(x.to_string())
}

const USIZES: [usize; 5] = [0, 1, 2, usize::MAX - 1, usize::MAX];
const U64S: [u64; 5] = [0, 1, 2, u64::MAX - 1, u64::MAX];
/// ordinary, blank inside, leading blank, and strings that need quoting AND escaping (they all
/// contain a blank, so the known finding C06/unquoted-escape does not apply), empty, tab, non-ASCII
const STRS: [&str; 12] = [
    "x", "a b", " lead", "a \"q\" b", "back \\ slash", "", "tab\tx", "\u{e9} \u{fc}",
    // round 6: a quote / backslash *before* the first blank (an encoder deciding from the first special byte),
    // a blank only at the very end, and a blank only in the tail of a longer string
    "Joe's mix", "b\\s first", "trail ", "Playlist 1",
];

fn durations() -> Vec<Duration> {
    vec![
        Duration::ZERO,
        Duration::from_nanos(1),
        Duration::from_nanos(499_999),
        Duration::from_nanos(500_000),
        Duration::from_nanos(999_999_999),
        Duration::from_secs(1),
        Duration::from_millis(2345),
        Duration::new(59, 999_500_000),
        Duration::from_secs(1 << 31),
        // long positions: beyond f32's millisecond resolution (16384 s) and integer range (2^24 s)
        Duration::from_millis(16_384_001),
        Duration::from_millis(18_000_001),
        Duration::from_millis(100_000_123),
        Duration::from_millis(16_777_217_000),
        Duration::from_millis(4_000_000_007),
    ]
}

fn bounds() -> Vec<Bound<usize>> {
    let mut v = vec![Bound::Unbounded];
    for x in [0usize, 1, 5, usize::MAX - 1, usize::MAX] {
        v.push(Bound::Included(x));
        v.push(Bound::Excluded(x));
    }
    v
}

fn sp(b: Bound<usize>) -> Bound<SongPosition> {
    match b {
        Bound::Included(x) => Bound::Included(SongPosition(x)),
        Bound::Excluded(x) => Bound::Excluded(SongPosition(x)),
        Bound::Unbounded => Bound::Unbounded,
    }
}

/// string parameter values: the 8 above; thorough adds every string of length <= 2 over 9 byte
/// classes that the encoder is known to carry (strings with a quote or backslash but no blank are
/// the known finding C06/unquoted-escape and stay out)
fn strs(tier: Tier) -> Vec<&'static str> {
    let mut v: Vec<&'static str> = STRS.to_vec();
    if tier == Tier::Thorough {
        for x in strings_over(&["a", " ", "\t", "\"", "'", "\\", "\u{e9}", "~", "\r"], 2) {
            let special = x.contains('"') || x.contains('\'') || x.contains('\\');
            if special && !(x.contains(' ') || x.contains('\t') || x.contains('\r')) {
                continue;
            }
            if !v.contains(&x.as_str()) {
                v.push(Box::leak(x.into_boxed_str()));
            }
        }
    }
    v
}

fn all_cases(tier: Tier) -> Vec<Case> {
    let pool = strs(tier);
    // the triple loop (sticker set / find ... where) over the full thorough pool would be 10^6 cases
    // per command: the third parameter runs over the 8 basic strings
    let pool3: Vec<&'static str> = pool.iter().copied().take(8).collect();
    let mut v: Vec<Case> = Vec::new();
    // argument-less commands
    v.push(case("ClearQueue", c::ClearQueue, "clear", vec![]));
    v.push(case("Next", c::Next, "next", vec![]));
    v.push(case("Ping", c::Ping, "ping", vec![]));
    v.push(case("Previous", c::Previous, "previous", vec![]));
    v.push(case("Stop", c::Stop, "stop", vec![]));
    v.push(case("Status", c::Status, "status", vec![]));
    v.push(case("Stats", c::Stats, "stats", vec![]));
    v.push(case("Queue", c::Queue, "playlistinfo", vec![]));
    v.push(case("Queue::all", c::Queue::all(), "playlistinfo", vec![]));
    v.push(case("CurrentSong", c::CurrentSong, "currentsong", vec![]));
    v.push(case("GetPlaylists", c::GetPlaylists, "listplaylists", vec![]));
    v.push(case("GetEnabledTagTypes", c::GetEnabledTagTypes, "tagtypes", vec![]));
    v.push(case("ReplayGainStatus", c::ReplayGainStatus, "replay_gain_status", vec![]));
    v.push(case("ReadChannelMessages", c::ReadChannelMessages, "readmessages", vec![]));
    v.push(case("ListChannels", c::ListChannels, "channels", vec![]));
    v.push(case("Shuffle::all", c::Shuffle::all(), "shuffle", vec![]));
    v.push(case("Play::current", c::Play::current(), "play", vec![]));
    // (`listallinfo [URI]`: the omitted URI and the empty URI both name the library root)
    v.push(case2("ListAllIn::root", c::ListAllIn::root(), "listallinfo", vec![], vec![s("")]));
    v.push(case("Update::new", c::Update::new(), "update", vec![]));
    v.push(case("Rescan::new", c::Rescan::new(), "rescan", vec![]));
    v.push(case("Update::default", c::Update::default(), "update", vec![]));
    v.push(case("TagTypes::enable_all", c::TagTypes::enable_all(), "tagtypes", vec![s("all")]));
    v.push(case("TagTypes::disable_all", c::TagTypes::disable_all(), "tagtypes", vec![s("clear")]));
    // one string
    for &x in &pool {
        v.push(case(format!("ClearPlaylist({x:?})"), c::ClearPlaylist(x), "playlistclear", vec![s(x)]));
        v.push(case(format!("DeletePlaylist({x:?})"), c::DeletePlaylist(x), "rm", vec![s(x)]));
        v.push(case(format!("SaveQueueAsPlaylist({x:?})"), c::SaveQueueAsPlaylist(x), "save", vec![s(x)]));
        v.push(case(format!("SubscribeToChannel({x:?})"), c::SubscribeToChannel(x), "subscribe", vec![s(x)]));
        v.push(case(format!("UnsubscribeFromChannel({x:?})"), c::UnsubscribeFromChannel(x), "unsubscribe", vec![s(x)]));
        v.push(case(format!("GetPlaylist({x:?})"), c::GetPlaylist(x), "listplaylistinfo", vec![s(x)]));
        // (the empty directory is the library root: `listallinfo` without an argument, by design)
        if x.is_empty() {
            v.push(case2("ListAllIn::directory(\"\")", c::ListAllIn::directory(x), "listallinfo", vec![], vec![s("")]));
        } else {
            v.push(case(format!("ListAllIn::directory({x:?})"), c::ListAllIn::directory(x), "listallinfo", vec![s(x)]));
        }
        if x.is_empty() {
            // (`update [URI]` / `rescan [URI]`: as for listallinfo, no URI and the empty URI both mean everything)
            v.push(case2("Update::uri(\"\")", c::Update::new().uri(x), "update", vec![s(x)], vec![]));
            v.push(case2("Rescan::uri(\"\")", c::Rescan::new().uri(x), "rescan", vec![s(x)], vec![]));
        } else {
            v.push(case(format!("Update::uri({x:?})"), c::Update::new().uri(x), "update", vec![s(x)]));
            v.push(case(format!("Rescan::uri({x:?})"), c::Rescan::new().uri(x), "rescan", vec![s(x)]));
        }
        v.push(case(format!("Add::uri({x:?})"), c::Add::uri(x), "addid", vec![s(x)]));
        v.push(case(format!("StickerList({x:?})"), c::StickerList::new(x), "sticker", vec![s("list"), s("song"), s(x)]));
        v.push(case(format!("LoadPlaylist::name({x:?})"), c::LoadPlaylist::name(x), "load", vec![s(x)]));
        for &y in &pool {
            v.push(case(format!("RenamePlaylist({x:?},{y:?})"), c::RenamePlaylist::new(x, y), "rename", vec![s(x), s(y)]));
            v.push(case(format!("AddToPlaylist({x:?},{y:?})"), c::AddToPlaylist::new(x, y), "playlistadd", vec![s(x), s(y)]));
            v.push(case(format!("SendChannelMessage({x:?},{y:?})"), c::SendChannelMessage::new(x, y), "sendmessage", vec![s(x), s(y)]));
            v.push(case(format!("StickerGet({x:?},{y:?})"), c::StickerGet::new(x, y), "sticker", vec![s("get"), s("song"), s(x), s(y)]));
            v.push(case(format!("StickerDelete({x:?},{y:?})"), c::StickerDelete::new(x, y), "sticker", vec![s("delete"), s("song"), s(x), s(y)]));
            v.push(case(format!("StickerFind({x:?},{y:?})"), c::StickerFind::new(x, y), "sticker", vec![s("find"), s("song"), s(x), s(y)]));
            for &z in &pool3 {
                v.push(case(format!("StickerSet({x:?},{y:?},{z:?})"), c::StickerSet::new(x, y, z), "sticker", vec![s("set"), s("song"), s(x), s(y), s(z)]));
                v.push(case(format!("StickerFind({x:?},{y:?}).where_eq({z:?})"), c::StickerFind::new(x, y).where_eq(z), "sticker", vec![s("find"), s("song"), s(x), s(y), s("="), s(z)]));
                v.push(case(format!("StickerFind({x:?},{y:?}).where_gt({z:?})"), c::StickerFind::new(x, y).where_gt(z), "sticker", vec![s("find"), s("song"), s(x), s(y), s(">"), s(z)]));
                v.push(case(format!("StickerFind({x:?},{y:?}).where_lt({z:?})"), c::StickerFind::new(x, y).where_lt(z), "sticker", vec![s("find"), s("song"), s(x), s(y), s("<"), s(z)]));
            }
            for p in USIZES {
                v.push(case(format!("AddToPlaylist({x:?},{y:?}).at({p})"), c::AddToPlaylist::new(x, y).at(p), "playlistadd", vec![s(x), s(y), A::N(p as u128)]));
            }
        }
        for p in USIZES {
            v.push(case(format!("Add::uri({x:?}).at({p})"), c::Add::uri(x).at(p), "addid", vec![s(x), A::N(p as u128)]));
            v.push(case(format!("Add::uri({x:?}).before_current({p})"), c::Add::uri(x).before_current(p), "addid", vec![s(x), s(&format!("-{p}"))]));
            v.push(case(format!("Add::uri({x:?}).after_current({p})"), c::Add::uri(x).after_current(p), "addid", vec![s(x), s(&format!("+{p}"))]));
            v.push(case(format!("RemoveFromPlaylist::position({x:?},{p})"), c::RemoveFromPlaylist::position(x, p), "playlistdelete", vec![s(x), A::N(p as u128)]));
            v.push(case(format!("AlbumArt({x:?}).offset({p})"), c::AlbumArt::new(x).offset(p), "albumart", vec![s(x), A::N(p as u128)]));
            v.push(case(format!("AlbumArtEmbedded({x:?}).offset({p})"), c::AlbumArtEmbedded::new(x).offset(p), "readpicture", vec![s(x), A::N(p as u128)]));
            for q in USIZES {
                v.push(case(format!("MoveInPlaylist({x:?},{p},{q})"), c::MoveInPlaylist::new(x, p, q), "playlistmove", vec![s(x), A::N(p as u128), A::N(q as u128)]));
            }
        }
        v.push(case(format!("AlbumArt({x:?})"), c::AlbumArt::new(x), "albumart", vec![s(x), A::N(0)]));
        v.push(case(format!("AlbumArtEmbedded({x:?})"), c::AlbumArtEmbedded::new(x), "readpicture", vec![s(x), A::N(0)]));
    }
    // booleans
    for b in [false, true] {
        let e = s(if b { "1" } else { "0" });
        v.push(case(format!("SetConsume({b})"), c::SetConsume(b), "consume", vec![e.clone()]));
        v.push(case(format!("SetPause({b})"), c::SetPause(b), "pause", vec![e.clone()]));
        v.push(case(format!("SetRandom({b})"), c::SetRandom(b), "random", vec![e.clone()]));
        v.push(case(format!("SetRepeat({b})"), c::SetRepeat(b), "repeat", vec![e]));
    }
    // volume: clamped into MPD's domain 0..=100
    for vol in 0..=255u8 {
        v.push(case(format!("SetVolume({vol})"), c::SetVolume(vol), "setvol", vec![A::N(vol.min(100) as u128)]));
    }
    v.push(case("SetSingle(Disabled)", c::SetSingle(SingleMode::Disabled), "single", vec![s("0")]));
    v.push(case("SetSingle(Enabled)", c::SetSingle(SingleMode::Enabled), "single", vec![s("1")]));
    v.push(case("SetSingle(Oneshot)", c::SetSingle(SingleMode::Oneshot), "single", vec![s("oneshot")]));
    for (m, n) in [(ReplayGainMode::Off, "off"), (ReplayGainMode::Track, "track"), (ReplayGainMode::Album, "album"), (ReplayGainMode::Auto, "auto")] {
        v.push(case(format!("SetReplayGainMode({m:?})"), c::SetReplayGainMode(m), "replay_gain_mode", vec![s(n)]));
    }
    for n in USIZES {
        v.push(case(format!("SetBinaryLimit({n})"), c::SetBinaryLimit(n), "binarylimit", vec![A::N(n as u128)]));
    }
    // durations
    for d in durations() {
        v.push(case(format!("Crossfade({d:?})"), c::Crossfade(d), "crossfade", vec![A::N(d.as_secs() as u128)]));
        v.push(case(format!("Seek(Absolute({d:?}))"), c::Seek(SeekMode::Absolute(d)), "seekcur", vec![A::T(None, d)]));
        v.push(case(format!("Seek(Forward({d:?}))"), c::Seek(SeekMode::Forward(d)), "seekcur", vec![A::T(Some('+'), d)]));
        v.push(case(format!("Seek(Backward({d:?}))"), c::Seek(SeekMode::Backward(d)), "seekcur", vec![A::T(Some('-'), d)]));
        for p in [0usize, usize::MAX] {
            v.push(case(format!("SeekTo(pos {p},{d:?})"), c::SeekTo(Song::Position(SongPosition(p)), d), "seek", vec![A::N(p as u128), A::T(None, d)]));
            v.push(case(format!("SeekTo(id {p},{d:?})"), c::SeekTo(Song::Id(SongId(p as u64)), d), "seekid", vec![A::N(p as u128), A::T(None, d)]));
        }
    }
    // positions and ids
    for p in USIZES {
        v.push(case(format!("Play::song(pos {p})"), c::Play::song(SongPosition(p)), "play", vec![A::N(p as u128)]));
        v.push(case(format!("Queue::song(pos {p})"), c::Queue::song(SongPosition(p)), "playlistinfo", vec![A::N(p as u128)]));
        v.push(case(format!("QueueRange::song(pos {p})"), c::QueueRange::song(SongPosition(p)), "playlistinfo", vec![A::N(p as u128)]));
        v.push(case(format!("Delete::position({p})"), c::Delete::position(SongPosition(p)), "delete", vec![A::R(Bound::Included(p), Bound::Included(p))]));
        for q in USIZES {
            v.push(case(format!("Move::position({p}).to_position({q})"), c::Move::position(SongPosition(p)).to_position(SongPosition(q)), "move", vec![A::R(Bound::Included(p), Bound::Included(p)), A::N(q as u128)]));
            v.push(case(format!("Move::position({p}).after_current({q})"), c::Move::position(SongPosition(p)).after_current(q), "move", vec![A::R(Bound::Included(p), Bound::Included(p)), s(&format!("+{q}"))]));
            v.push(case(format!("Move::position({p}).before_current({q})"), c::Move::position(SongPosition(p)).before_current(q), "move", vec![A::R(Bound::Included(p), Bound::Included(p)), s(&format!("-{q}"))]));
        }
    }
    for i in U64S {
        v.push(case(format!("Play::song(id {i})"), c::Play::song(SongId(i)), "playid", vec![A::N(i as u128)]));
        v.push(case(format!("Queue::song(id {i})"), c::Queue::song(SongId(i)), "playlistid", vec![A::N(i as u128)]));
        v.push(case(format!("Delete::id({i})"), c::Delete::id(SongId(i)), "deleteid", vec![A::N(i as u128)]));
        for q in USIZES {
            v.push(case(format!("Move::id({i}).to_position({q})"), c::Move::id(SongId(i)).to_position(SongPosition(q)), "moveid", vec![A::N(i as u128), A::N(q as u128)]));
            v.push(case(format!("Move::id({i}).after_current({q})"), c::Move::id(SongId(i)).after_current(q), "moveid", vec![A::N(i as u128), s(&format!("+{q}"))]));
            v.push(case(format!("Move::id({i}).before_current({q})"), c::Move::id(SongId(i)).before_current(q), "moveid", vec![A::N(i as u128), s(&format!("-{q}"))]));
        }
    }
    // ranges: every combination of bound kinds and boundary values
    let filter = Filter::tag(Tag::Artist, "x");
    for st in bounds() {
        for en in bounds() {
            let r = (sp(st), sp(en));
            let ru = (st, en);
            v.push(case(format!("Queue::range({st:?},{en:?})"), c::Queue::range(r), "playlistinfo", vec![A::R(st, en)]));
            v.push(case(format!("QueueRange::range({st:?},{en:?})"), c::QueueRange::range(r), "playlistinfo", vec![A::R(st, en)]));
            v.push(case(format!("Shuffle::range({st:?},{en:?})"), c::Shuffle::range(r), "shuffle", vec![A::R(st, en)]));
            v.push(case(format!("Delete::range({st:?},{en:?})"), c::Delete::range(r), "delete", vec![A::R(st, en)]));
            v.push(case(format!("RemoveFromPlaylist::range({st:?},{en:?})"), c::RemoveFromPlaylist::range("p l", r), "playlistdelete", vec![s("p l"), A::R(st, en)]));
            v.push(case(format!("LoadPlaylist.range({st:?},{en:?})"), c::LoadPlaylist::name("p").range(ru), "load", vec![s("p"), A::R(st, en)]));
            v.push(case(format!("Find.window({st:?},{en:?})"), c::Find::new(filter.clone()).window(ru), "find", vec![A::Filter, s("window"), A::R(st, en)]));
            if en != Bound::Unbounded {
                v.push(case(format!("Move::range({st:?},{en:?}).to_position(3)"), c::Move::range(r).to_position(SongPosition(3)), "move", vec![A::R(st, en), A::N(3)]));
            }
        }
    }
    // find / list / count forms
    v.push(case("Find::new", c::Find::new(filter.clone()), "find", vec![A::Filter]));
    for (t, n) in [(Tag::Artist, "Artist"), (Tag::MusicBrainzRecordingId, "MUSICBRAINZ_TRACKID"), (Tag::Other("myTag".into()), "myTag")] {
        v.push(case(format!("Find.sort({n})"), c::Find::new(filter.clone()).sort(t.clone()), "find", vec![A::Filter, s("sort"), s(n)]));
        v.push(case(format!("Find.window.sort({n})"), c::Find::new(filter.clone()).window(2..4).sort(t.clone()), "find", vec![A::Filter, s("sort"), s(n), s("window"), A::R(Bound::Included(2), Bound::Excluded(4))]));
        v.push(case(format!("List::new({n})"), c::List::new(t.clone()), "list", vec![s(n)]));
        v.push(case(format!("List::new({n}).filter"), c::List::new(t.clone()).filter(filter.clone()), "list", vec![s(n), A::Filter]));
        v.push(case(format!("List::new(Album).group_by([{n}])"), c::List::new(Tag::Album).group_by([t.clone()]), "list", vec![s("Album"), s("group"), s(n)]));
        v.push(case(
            format!("List::new(Title).filter.group_by([{n}, Album])"),
            c::List::new(Tag::Title).filter(filter.clone()).group_by([t.clone(), Tag::Album]),
            "list",
            vec![s("Title"), A::Filter, s("group"), s(n), s("group"), s("Album")],
        ));
        v.push(case(format!("Count.group_by({n})"), c::Count::new(filter.clone()).group_by(t.clone()), "count", vec![A::Filter, s("group"), s(n)]));
        v.push(case(format!("CountGrouped::new({n})"), c::CountGrouped::new(t.clone()), "count", vec![s("group"), s(n)]));
        v.push(case(format!("CountGrouped::new({n}).filter"), c::CountGrouped::new(t.clone()).filter(filter.clone()), "count", vec![A::Filter, s("group"), s(n)]));
    }
    v.push(case("Count::new", c::Count::new(filter.clone()), "count", vec![A::Filter]));
    // groupings that contain the listed tag itself, or one tag twice: sent as given
    v.push(case("List::new(Album).group_by([Album])", c::List::new(Tag::Album).group_by([Tag::Album]), "list", vec![s("Album"), s("group"), s("Album")]));
    v.push(case("List::new(Album).group_by([AlbumArtist, Album])", c::List::new(Tag::Album).group_by([Tag::AlbumArtist, Tag::Album]), "list", vec![s("Album"), s("group"), s("AlbumArtist"), s("group"), s("Album")]));
    v.push(case("List::new(Album).group_by([Other(Album), Date])", c::List::new(Tag::Album).group_by([Tag::Other("Album".into()), Tag::Date]), "list", vec![s("Album"), s("group"), s("Album"), s("group"), s("Date")]));
    v.push(case("List::new(Title).group_by([Date, Date])", c::List::new(Tag::Title).group_by([Tag::Date, Tag::Date]), "list", vec![s("Title"), s("group"), s("Date"), s("group"), s("Date")]));
    v.push(case("CountGrouped::new(Artist) with a filter on Artist", c::CountGrouped::new(Tag::Artist).filter(Filter::tag(Tag::Artist, "x")), "count", vec![A::Filter, s("group"), s("Artist")]));
    v.extend(builder_histories());
    let tags = [Tag::Album, Tag::Title, Tag::MusicBrainzWorkId];
    v.push(case("TagTypes::disable", c::TagTypes::disable(&tags), "tagtypes", vec![s("disable"), s("Album"), s("Title"), s("MUSICBRAINZ_WORKID")]));
    v.push(case("TagTypes::enable", c::TagTypes::enable(&tags), "tagtypes", vec![s("enable"), s("Album"), s("Title"), s("MUSICBRAINZ_WORKID")]));
    v.push(case("TagTypes::enable(1)", c::TagTypes::enable(&tags[..1]), "tagtypes", vec![s("enable"), s("Album")]));
    v
}

/// Builder values are values: what a builder renders depends on the parameters it holds now, not on
/// how it got there. Every overwriting setter is called twice with different values (the last one
/// counts), and builders are rendered, modified (directly and through a clone) and rendered again.
fn builder_histories() -> Vec<Case> {
    let mut v: Vec<Case> = Vec::new();
    let f1 = Filter::tag(Tag::Artist, "x");
    let f2 = Filter::tag(Tag::Album, "y z");
    let (a1, a2) = (filter_arg(&f1), filter_arg(&f2));
    let r = |a: usize, b: usize| A::R(Bound::Included(a), Bound::Excluded(b));
    // List / CountGrouped: filter overwritten
    v.push(case("List.filter(f1).filter(f2)", c::List::new(Tag::Album).filter(f1.clone()).filter(f2.clone()), "list", vec![s("Album"), a2.clone()]));
    {
        let base = c::List::new(Tag::Album).filter(f1.clone());
        let _ = base.command();
        v.push(case("List.filter(f1) rendered, clone.filter(f2)", base.clone().filter(f2.clone()), "list", vec![s("Album"), a2.clone()]));
        v.push(case("List.filter(f1) rendered, .filter(f2)", base.filter(f2.clone()), "list", vec![s("Album"), a2.clone()]));
    }
    v.push(case("List.filter(f1).group_by.filter?", c::List::new(Tag::Title).filter(f1.clone()).filter(f2.clone()).group_by([Tag::Album]), "list", vec![s("Title"), a2.clone(), s("group"), s("Album")]));
    // (round 7) every order of the two List builder steps, and each step twice (the later call wins; the grouping
    // and the filter are independent of each other)
    v.push(case("List.group_by.filter", c::List::new(Tag::Title).group_by([Tag::Album]).filter(f1.clone()), "list", vec![s("Title"), a1.clone(), s("group"), s("Album")]));
    v.push(case("List.group_by(2).filter", c::List::new(Tag::Title).group_by([Tag::Album, Tag::Date]).filter(f2.clone()), "list", vec![s("Title"), a2.clone(), s("group"), s("Album"), s("group"), s("Date")]));
    v.push(case("List.group_by(g1).group_by(g2)", c::List::new(Tag::Title).group_by([Tag::Album]).group_by([Tag::Artist]), "list", vec![s("Title"), s("group"), s("Artist")]));
    v.push(case("List.group_by(g1).group_by(g2, g3).filter", c::List::new(Tag::Title).group_by([Tag::Album]).group_by([Tag::Artist, Tag::Date]).filter(f1.clone()), "list", vec![s("Title"), a1.clone(), s("group"), s("Artist"), s("group"), s("Date")]));
    v.push(case("List.filter.group_by(g1).group_by(g2)", c::List::new(Tag::Title).filter(f1.clone()).group_by([Tag::Album]).group_by([Tag::Artist]), "list", vec![s("Title"), a1.clone(), s("group"), s("Artist")]));
    v.push(case("List.group_by.filter(f1).filter(f2)", c::List::new(Tag::Title).group_by([Tag::Album]).filter(f1.clone()).filter(f2.clone()), "list", vec![s("Title"), a2.clone(), s("group"), s("Album")]));
    {
        let base = c::List::new(Tag::Title).group_by([Tag::Album]);
        let _ = base.command();
        v.push(case("List.group_by rendered, .filter", base.clone().filter(f1.clone()), "list", vec![s("Title"), a1.clone(), s("group"), s("Album")]));
        v.push(case("List.group_by rendered, .group_by(g2)", base.group_by([Tag::Genre]), "list", vec![s("Title"), s("group"), s("Genre")]));
    }
    v.push(case("CountGrouped.filter(f1).filter(f2)", c::CountGrouped::new(Tag::Artist).filter(f1.clone()).filter(f2.clone()), "count", vec![a2.clone(), s("group"), s("Artist")]));
    v.push(case("Count::new(f1).group_by.filter(f2)", c::Count::new(f1.clone()).group_by(Tag::Artist).filter(f2.clone()), "count", vec![a2.clone(), s("group"), s("Artist")]));
    {
        let base = c::Count::new(f1.clone()).group_by(Tag::Artist);
        let _ = base.command();
        v.push(case("Count.group_by rendered, .filter(f2)", base.filter(f2.clone()), "count", vec![a2.clone(), s("group"), s("Artist")]));
    }
    // Find: window and sort overwritten, before and after a rendering
    v.push(case("Find.window(0..50).window(50..100)", c::Find::new(f1.clone()).window(0..50).window(50..100), "find", vec![a1.clone(), s("window"), r(50, 100)]));
    v.push(case("Find.sort(Artist).sort(Album)", c::Find::new(f1.clone()).sort(Tag::Artist).sort(Tag::Album), "find", vec![a1.clone(), s("sort"), s("Album")]));
    {
        let base = c::Find::new(f1.clone()).window(0..50);
        let _ = base.command();
        v.push(case("Find.window(0..50) rendered, clone.window(50..100)", base.clone().window(50..100), "find", vec![a1.clone(), s("window"), r(50, 100)]));
        v.push(case("Find.window(0..50) rendered, clone.sort(Album)", base.clone().sort(Tag::Album), "find", vec![a1.clone(), s("sort"), s("Album"), s("window"), r(0, 50)]));
        v.push(case("Find.window(0..50) rendered, .window(50..100)", base.window(50..100), "find", vec![a1.clone(), s("window"), r(50, 100)]));
        let base = c::Find::new(f1.clone());
        let _ = base.command();
        v.push(case("Find rendered, .window(7..9)", base.clone().window(7..9), "find", vec![a1.clone(), s("window"), r(7, 9)]));
        v.push(case("Find rendered, .sort(Title)", base.sort(Tag::Title), "find", vec![a1.clone(), s("sort"), s("Title")]));
        let base = c::Find::new(f1.clone()).sort(Tag::Artist);
        let _ = base.command();
        v.push(case("Find.sort(Artist) rendered, .sort(Album).window(1..2)", base.sort(Tag::Album).window(1..2), "find", vec![a1.clone(), s("sort"), s("Album"), s("window"), r(1, 2)]));
    }
    // positions overwritten
    v.push(case("Add.at(1).at(2)", c::Add::uri("u").at(1).at(2), "addid", vec![s("u"), A::N(2)]));
    v.push(case("Add.at(1).before_current(3)", c::Add::uri("u").at(1).before_current(3), "addid", vec![s("u"), s("-3")]));
    v.push(case("Add.after_current(1).at(4)", c::Add::uri("u").after_current(1).at(4), "addid", vec![s("u"), A::N(4)]));
    {
        let base = c::Add::uri("u").at(1);
        let _ = base.command();
        v.push(case("Add.at(1) rendered, .after_current(2)", base.after_current(2), "addid", vec![s("u"), s("+2")]));
    }
    v.push(case("AddToPlaylist.at(1).at(2)", c::AddToPlaylist::new("p", "u").at(1).at(2), "playlistadd", vec![s("p"), s("u"), A::N(2)]));
    v.push(case("LoadPlaylist.range(0..1).range(2..3)", c::LoadPlaylist::name("p").range(0..1).range(2..3), "load", vec![s("p"), r(2, 3)]));
    {
        let base = c::LoadPlaylist::name("p").range(0..1);
        let _ = base.command();
        v.push(case("LoadPlaylist.range(0..1) rendered, .range(2..3)", base.range(2..3), "load", vec![s("p"), r(2, 3)]));
    }
    v.push(case("AlbumArt.offset(1).offset(2)", c::AlbumArt::new("u").offset(1).offset(2), "albumart", vec![s("u"), A::N(2)]));
    v.push(case("AlbumArtEmbedded.offset(1).offset(2)", c::AlbumArtEmbedded::new("u").offset(1).offset(2), "readpicture", vec![s("u"), A::N(2)]));
    {
        let base = c::AlbumArtEmbedded::new("u").offset(8192);
        let _ = base.command();
        v.push(case("AlbumArtEmbedded.offset(8192) rendered, .offset(16384)", base.offset(16384), "readpicture", vec![s("u"), A::N(16384)]));
    }
    v.push(case("StickerFind.where_eq(a).where_gt(b)", c::StickerFind::new("u", "n").where_eq("a").where_gt("b"), "sticker", vec![s("find"), s("song"), s("u"), s("n"), s(">"), s("b")]));
    v.push(case("Update.uri(a).uri(b)", c::Update::new().uri("a").uri("b"), "update", vec![s("b")]));
    v.push(case("Rescan.uri(a).uri(b)", c::Rescan::new().uri("a").uri("b"), "rescan", vec![s("b")]));
    v
}

/// the interval [lo, hi) of positions below usize::MAX a Rust range denotes (saturation at the
/// maximum is accepted by the property, so position usize::MAX itself is not compared)
fn rust_interval(st: Bound<usize>, en: Bound<usize>) -> (u128, u128) {
    let max = usize::MAX as u128;
    let lo = match st {
        Bound::Unbounded => 0,
        Bound::Included(x) => x as u128,
        Bound::Excluded(x) => x as u128 + 1,
    };
    let hi = match en {
        Bound::Unbounded => u128::MAX,
        Bound::Included(x) => x as u128 + 1,
        Bound::Excluded(x) => x as u128,
    };
    (lo.min(max), hi.min(max))
}

fn parse_mpd_range(a: &[u8]) -> Option<(u128, u128)> {
    let s = std::str::from_utf8(a).ok()?;
    let (x, y) = s.split_once(':')?;
    let max = usize::MAX as u128;
    if x.is_empty() || !x.bytes().all(|b| b.is_ascii_digit()) {
        return None;
    }
    let lo: u128 = x.parse().ok()?;
    let hi: u128 = if y.is_empty() {
        u128::MAX
    } else {
        if !y.bytes().all(|b| b.is_ascii_digit()) {
            return None;
        }
        y.parse().ok()?
    };
    // MPD parses unsigned 32/64-bit numbers: anything beyond u64 is not a valid request
    if lo > u64::MAX as u128 || (hi != u128::MAX && hi > u64::MAX as u128) {
        return None;
    }
    Some((lo.min(max), hi.min(max)))
}

/// commands whose position argument the protocol reference gives as `POS | START:END`: a bare
/// number denotes that one position
const POS_OR_RANGE: &[&str] = &["delete", "move", "playlistinfo", "playlistdelete"];

fn check_arg(exp: &A, got: &[u8], bare_position_ok: bool) -> Result<(), String> {
    match exp {
        A::S(s) => {
            if got == s.as_bytes() {
                Ok(())
            } else {
                Err(format!("expected argument <{}>, got <{}>", show_bytes(s.as_bytes()), show_bytes(got)))
            }
        }
        A::N(n) => {
            let t = std::str::from_utf8(got).map_err(|_| "not UTF-8".to_string())?;
            if !t.is_empty() && t.bytes().all(|b| b.is_ascii_digit()) && t.parse::<u128>().ok() == Some(*n) {
                Ok(())
            } else {
                Err(format!("expected the number {n}, got <{}>", show_bytes(got)))
            }
        }
        A::T(sign, d) => {
            let t = std::str::from_utf8(got).map_err(|_| "not UTF-8".to_string())?;
            let body = match sign {
                Some(c) => t.strip_prefix(*c).ok_or_else(|| format!("expected sign {c:?} in <{t}>"))?,
                None => t,
            };
            if body.is_empty() || !body.bytes().all(|b| b.is_ascii_digit() || b == b'.') || body.starts_with('.') {
                return Err(format!("not a plain decimal number: <{t}>"));
            }
            // exact decimal comparison in nanoseconds
            let (ip, fp) = body.split_once('.').unwrap_or((body, ""));
            let mut frac = fp.to_string();
            if frac.len() > 9 {
                return Err(format!("more than nanosecond digits in <{t}>"));
            }
            while frac.len() < 9 {
                frac.push('0');
            }
            let got_ns: u128 = ip.parse::<u128>().map_err(|_| "bad integer part".to_string())? * 1_000_000_000 + frac.parse::<u128>().map_err(|_| "bad fraction".to_string())?;
            let want_ns = d.as_nanos();
            let diff = got_ns.abs_diff(want_ns);
            // the seconds value goes through f64: allow its representation error on top of 0.5 ms
            let slack = 500_000 + (want_ns / (1u128 << 52));
            if diff <= slack {
                Ok(())
            } else {
                Err(format!("time <{t}> is {diff} ns away from {d:?} (allowed {slack})"))
            }
        }
        A::R(st, en) => {
            let bare = if bare_position_ok && !got.is_empty() && got.iter().all(|b| b.is_ascii_digit()) {
                std::str::from_utf8(got).ok().and_then(|t| t.parse::<u64>().ok()).map(|n| ((n as u128).min(usize::MAX as u128), (n as u128 + 1).min(usize::MAX as u128)))
            } else {
                None
            };
            let Some((lo, hi)) = bare.or_else(|| parse_mpd_range(got)) else { return Err(format!("not a START:END range: <{}>", show_bytes(got))) };
            let (rlo, rhi) = rust_interval(*st, *en);
            let empty_r = rlo >= rhi;
            let empty_m = lo >= hi;
            if (empty_r && empty_m) || (!empty_r && !empty_m && lo == rlo && hi == rhi) {
                Ok(())
            } else {
                Err(format!("range <{}> denotes [{lo},{hi}) but the Rust range ({st:?},{en:?}) denotes [{rlo},{rhi})", show_bytes(got)))
            }
        }
        A::Filter => {
            if got.first() == Some(&b'(') && got.last() == Some(&b')') {
                Ok(())
            } else {
                Err(format!("expected a filter expression, got <{}>", show_bytes(got)))
            }
        }
    }
}

fn check_case(cs: &Case, verbose: bool) -> Result<(), String> {
    let w = wire_of_command(cs.cmd.clone());
    if verbose {
        println!("  {} -> {:?}", cs.what, show_bytes(&w));
    }
    if w.last() != Some(&b'\n') || w.iter().filter(|&&b| b == b'\n').count() != 1 {
        return Err(format!("not exactly one line: {:?}", show_bytes(&w)));
    }
    let req = tokenize(&w[..w.len() - 1]).map_err(|e| format!("MPD rejects {:?}: {e}", show_bytes(&w)))?;
    if req.name != cs.name.as_bytes() {
        return Err(format!("command word <{}> instead of <{}>", show_bytes(&req.name), cs.name));
    }
    let against = |args: &[A]| -> Result<(), String> {
        if req.args.len() != args.len() {
            return Err(format!("{} arguments instead of {} in {:?}", req.args.len(), args.len(), show_bytes(&w)));
        }
        for (i, (e, g)) in args.iter().zip(&req.args).enumerate() {
            check_arg(e, g, POS_OR_RANGE.contains(&cs.name)).map_err(|m| format!("argument {i} of {:?}: {m}", show_bytes(&w)))?;
        }
        Ok(())
    };
    match (against(&cs.args), &cs.alt_args) {
        (Ok(()), _) => Ok(()),
        (Err(e), Some(alt)) => against(alt).map_err(|_| e),
        (Err(e), None) => Err(e),
    }
}

pub fn run(tier: Tier) -> i32 {
    let mut ctx = Ctx::new("C15", tier, "model_checking");
    ctx.assume("the expectation table (command word, argument count / positions / meaning per constructor path) is written from the MPD protocol reference");
    ctx.assume("ranges are compared as sets of positions below usize::MAX (saturation at the maximum is accepted by the statement); strings with quotes/backslashes/control bytes belong to C06");
    ctx.assume("durations beyond f64's exact millisecond range are outside the domain");
    let mut viol = Violations::default();
    // a constructor or `command()` that panics (overflow checks are on in this build) is a verdict, not a
    // crash of the check: the table is built inside catch, and a panic is reported with its message
    let cases = match catch(|| all_cases(tier)) {
        Ok(c) => c,
        Err(msg) => {
            viol.push(Violation::new("C15/panic", format!("building / rendering a predefined command panicked: {msg}"), json!({"what": "<panic while building the table>"})));
            let mut cov = Coverage::default();
            cov.rule = "the case table could not be built: a constructor panicked".to_string();
            return finish(&ctx, cov, viol);
        }
    };
    let mut nontrivial = 0u64;
    let mut words = std::collections::BTreeSet::new();
    for cs in &cases {
        words.insert(cs.name);
        if !cs.args.is_empty() {
            nontrivial += 1;
        }
        if let Err(why) = check_case(cs, false) {
            let kind = if why.contains("range") { "range" } else if why.contains("time") { "duration" } else if why.contains("command word") { "command-word" } else if why.contains("arguments instead") { "argument-count" } else { "argument" };
            viol.push(Violation::new(format!("C15/{}-{kind}", cs.name), format!("{}: {why}", cs.what), json!({"what": cs.what})));
        }
    }
    let mut cov = Coverage::default();
    cov.evaluations = cases.len() as u64;
    cov.distinct_nontrivial = nontrivial;
    cov.rule = "every constructor / builder path of every predefined command x boundary values: integers {0,1,2,MAX-1,MAX}, every pair of range bounds from {unbounded, included, excluded} x {0,1,5,MAX-1,MAX} (incl. empty and inverted), 14 durations around the millisecond rounding points and beyond f32's resolution, every overwriting builder setter called twice and builders rendered / modified / rendered again (last value wins, no memory of earlier renderings), all enum variants, every string parameter over 12 strings (plain, blanks, leading / trailing blank, double quotes, backslash, a quote or backslash before the first blank, empty, tab, non-ASCII), volumes 0..=255; non-trivial = cases with at least one argument".to_string();
    cov.states = cases.len() as u64;
    cov.transitions = cases.iter().map(|c| c.args.len() as u64 + 1).sum();
    cov.traces = cases.len() as u64;
    cov.exhaustive = true;
    cov.set("distinct_command_words", json!(words.len()));
    cov.set("command_words", json!(words));
    cov.set("state_meaning", json!("states = distinct (constructor path, parameter values) cases; transitions = command word + arguments interpreted"));
    cov.samples = cases.iter().step_by(cases.len() / 5 + 1).map(|c| json!({"case": c.what, "wire": show_bytes(&wire_of_command(c.cmd.clone()))})).collect();
    finish(&ctx, cov, viol)
}

pub fn replay(case: &Value) -> i32 {
    let what = case["what"].as_str().unwrap_or("");
    let cases = match catch(|| all_cases(Tier::Thorough)) {
        Ok(c) => c,
        Err(msg) => {
            println!("replay: VIOLATION: building / rendering a predefined command panicked: {msg}");
            return 1;
        }
    };
    for cs in cases {
        if cs.what == what {
            println!("replay C15: {what}");
            return match check_case(&cs, true) {
                Ok(()) => {
                    println!("replay: property holds on this case");
                    0
                }
                Err(e) => {
                    println!("replay: VIOLATION: {e}");
                    1
                }
            };
        }
    }
    println!("replay: unknown case {what}");
    2
}
