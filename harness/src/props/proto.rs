//! Protocol-layer properties decided by `segmc`: C02 (segmentation independence), C03 (exact
//! decoding), C09 (arbitrary bytes), C10 (EOF classification), and the protocol half of C18.

use crate::mpdref::wire::AFrame;
use std::collections::HashSet;

use rayon::prelude::*;
use serde_json::{json, Value};

use crate::{
    common::*,
    engines::segmc::*,
    mpdref::wire::{ref_decode, ref_greeting, AResponse, BinPos, RefEnd, RefGreeting, Wire},
    props::grammar::*,
};

#[derive(Default)]
pub struct Acc {
    pub streams: u64,
    pub sessions: u64,
    pub reads: u64,
    pub nontrivial: u64,
    pub max_buf: usize,
    pub outcomes: HashSet<u64>,
    pub viol: Violations,
    pub samples: Vec<Value>,
}

impl Acc {
    pub fn merge(mut self, o: Acc) -> Acc {
        self.streams += o.streams;
        self.sessions += o.sessions;
        self.reads += o.reads;
        self.nontrivial += o.nontrivial;
        self.max_buf = self.max_buf.max(o.max_buf);
        self.outcomes.extend(o.outcomes);
        self.viol.merge(o.viol);
        for s in o.samples {
            if self.samples.len() < 5 {
                self.samples.push(s);
            }
        }
        self
    }
}

pub struct Expect {
    pub responses: Vec<AResponse>,
    pub ends: Vec<Terminal>,
    /// a second, equally faithful reading of the stream (C09: field names outside today's alphabet)
    pub alt: Option<Box<Expect>>,
}

impl Expect {
    fn matches(&self, s: &Session) -> bool {
        s.responses == self.responses && self.ends.contains(&s.end) || self.alt.as_ref().is_some_and(|a| a.matches(s))
    }
}

fn case_json(kind: &str, stream: &[u8], cuts: &[usize], flavor: Flavor, mask: u64, end: EndAnswer) -> Value {
    json!({
        "kind": kind,
        "stream_hex": hex(stream),
        "stream_shown": show_bytes(&stream[..stream.len().min(200)]),
        "stream_len": stream.len(),
        "cuts": cuts,
        "flavor": format!("{flavor:?}"),
        "pending_mask": mask,
        "end": format!("{end:?}"),
    })
}

fn describe_session(s: &Session) -> String {
    format!("{} response(s) {:?} then {:?}", s.responses.len(), s.responses.iter().map(|r| r.to_json().to_string()).map(|s| if s.chars().count() > 160 { format!("{}…", s.chars().take(160).collect::<String>()) } else { s }).collect::<Vec<_>>(), s.end)
}

/// Run one session and compare with the expectation. `sig` names the violation class.
#[allow(clippy::too_many_arguments)]
/// mask bit: after every cancellation a command is sent before receive() is called again
pub const SEND_AFTER_CANCEL: u64 = 1 << 47;
/// (round 7) the session is driven through `command()` - send and receive in one call - instead of `receive()`
pub const VIA_COMMAND: u64 = 1 << 31;

pub fn check_session(kind: &str, stream: &[u8], cuts: &[usize], flavor: Flavor, mask: u64, end: EndAnswer, expect: &Expect, probe: bool, acc: &mut Acc, sigf: &dyn Fn(&Session) -> String) {
    let script = Script { stream, cuts, end, pending_mask: mask & 0x7fff_ffff, cancel_mask: (mask >> 32) & 0x7fff, cancel_twice_mask: mask >> 48, send_after_cancel: mask & SEND_AFTER_CANCEL != 0, via_command: mask & VIA_COMMAND != 0 };
    let (s, st) = run_session(flavor, &script, expect.responses.len() + 2, probe);
    acc.sessions += 1;
    acc.reads += st.reads.get();
    acc.max_buf = acc.max_buf.max(st.max_buf.get());
    let ok = expect.matches(&s);
    // bounded reads: one per segment, plus one per receive call, plus buffer clipping
    let seg = cuts.len() as u64 + 1;
    // (one per byte is the most any buffer-growth policy can need; an unbounded read loop is
    // caught separately by the reader's after-end cap)
    let read_cap = seg + stream.len() as u64 + expect.responses.len() as u64 + 64 + mask.count_ones() as u64;
    if st.reads.get() > read_cap {
        acc.viol.push(Violation::new(
            format!("{kind}/too-many-reads"),
            format!("{} reads for {} segments of a {}-byte stream", st.reads.get(), seg, stream.len()),
            case_json(kind, stream, cuts, flavor, mask, end),
        ));
    }
    if !ok {
        acc.viol.push(Violation::new(
            sigf(&s),
            format!(
                "{flavor:?} cuts {:?} on {:?}: got {}; expected {} response(s) then one of {:?}",
                &cuts[..cuts.len().min(8)],
                show_bytes(&stream[..stream.len().min(80)]),
                describe_session(&s),
                expect.responses.len(),
                expect.ends
            ),
            case_json(kind, stream, cuts, flavor, mask, end),
        ));
    }
    acc.outcomes.insert(hash64(&s));
}

fn default_sig(kind: &'static str) -> impl Fn(&Session) -> String {
    move |s: &Session| match &s.end {
        Terminal::Panic(_) => format!("{kind}/panic"),
        Terminal::Hang => format!("{kind}/hang"),
        _ => format!("{kind}/mismatch"),
    }
}

/// segmentation sets for a stream of length n
fn segsets(n: usize, all_upto: usize, two_upto: usize, three_upto: usize) -> Vec<Vec<usize>> {
    if n <= all_upto {
        return all_compositions(n).collect();
    }
    let mut v = if n <= three_upto {
        upto_k_cuts(n, 3)
    } else if n <= two_upto {
        upto_k_cuts(n, 2)
    } else {
        upto_k_cuts(n.min(600), 1)
    };
    v.push(chunked(n, 1));
    v.push(chunked(n, 2));
    v.push(chunked(n, 3));
    v.push(chunked(n, 7));
    v
}

/// structural boundaries of a stream: line ends, payload starts/ends, buffer sizes
fn structural_points(stream: &[u8]) -> Vec<usize> {
    let mut pts: Vec<usize> = Vec::new();
    for (i, &b) in stream.iter().enumerate() {
        if b == b'\n' {
            pts.push(i + 1);
        }
    }
    // keep only a spread of line ends if there are very many
    if pts.len() > 60 {
        let keep: Vec<usize> = (0..60).map(|k| pts[k * pts.len() / 60]).collect();
        pts = keep;
    }
    let mut p = 4096;
    while p <= stream.len() + 4096 {
        pts.push(p);
        p *= 2;
    }
    pts.retain(|&p| p < stream.len());
    pts.sort();
    pts.dedup();
    pts
}

fn long_segsets(stream: &[u8], thorough: bool) -> Vec<Vec<usize>> {
    let n = stream.len();
    let mut out: Vec<Vec<usize>> = vec![vec![]];
    let step = if thorough { 1 } else { 3 };
    // every single cut position (quick: every third, plus neighbourhoods below)
    for p in (1..n).step_by(step) {
        out.push(vec![p]);
    }
    let pts = structural_points(stream);
    let mut near: Vec<usize> = Vec::new();
    for &p in &pts {
        for d in -3i64..=3 {
            let q = p as i64 + d;
            if q >= 1 && (q as usize) < n {
                near.push(q as usize);
            }
        }
    }
    near.sort();
    near.dedup();
    for &p in &near {
        out.push(vec![p]);
    }
    // pairs of cuts near structural boundaries
    let pair_pts: Vec<usize> = if thorough { near.clone() } else { near.iter().copied().step_by(3).collect() };
    for (i, &a) in pair_pts.iter().enumerate() {
        for &b in &pair_pts[i + 1..] {
            out.push(vec![a, b]);
        }
    }
    for size in [1usize, 2, 3, 7, 4095, 4096, 4097] {
        out.push(chunked(n, size));
    }
    out
}

/// segmentations for streams of several large components: reads that fill all offered room,
/// typical network chunk sizes, and single cuts around every component boundary / buffer size
fn multi_segsets(stream: &[u8], bounds: &[usize]) -> Vec<Vec<usize>> {
    let n = stream.len();
    let mut out: Vec<Vec<usize>> = vec![vec![]];
    for size in [7usize, 1000, 1460, 4095, 4096, 4097, 8192, 16384, 32768, 65536] {
        if size < n {
            out.push(chunked(n, size));
        }
    }
    let mut pts: Vec<usize> = bounds.to_vec();
    // payload starts: the byte after each `binary: N` header line
    let mut i = 0;
    while let Some(p) = stream[i..].windows(8).position(|w| w == b"binary: ") {
        let at = i + p;
        if let Some(e) = stream[at..].iter().position(|&b| b == b'\n') {
            pts.push(at);
            pts.push(at + e + 1);
            i = at + e + 1;
        } else {
            break;
        }
    }
    let mut p = 4096;
    while p < n {
        pts.push(p);
        p *= 2;
    }
    pts.sort();
    pts.dedup();
    for &p in &pts {
        for d in -2i64..=2 {
            let q = p as i64 + d;
            if q >= 1 && (q as usize) < n {
                out.push(vec![q as usize]);
            }
        }
    }
    out
}

// ---------------------------------------------------------------------------------------------
// C03

fn c03_items(tier: Tier) -> Vec<(Vec<Wire>, BinPos)> {
    let mut items: Vec<(Vec<Wire>, BinPos)> = Vec::new();
    for w in tier_a(tier.pick(2, 2), true) {
        items.push((vec![w], BinPos::Last));
    }
    for w in tier_a(1, false) {
        items.push((vec![w], BinPos::First));
    }
    for w in tier_b(tier.pick(2, 3)) {
        items.push((vec![w], BinPos::Last));
    }
    for s in sequences(tier.pick(2, 3)) {
        items.push((s, BinPos::Last));
    }
    items
}

/// (round 7) Protocol-level counterpart of the loop checks' independence probe: on ONE thread, a reference
/// session; then connections that end badly (a stream cut after a complete line of a response, blocking and
/// async; a handshake that fails after part of a greeting; a malformed greeting); then the reference session
/// again - it must be observed exactly as before. Deterministic (a fixed order on the calling thread), unlike the
/// enumeration proper, whose sessions are spread over worker threads.
fn proto_independence_probe(kind: &str, acc: &mut Acc) {
    let reference: &[u8] = b"file: a.flac\nTitle: t\nOK\nvolume: 5\nlist_OK\nstate: play\nlist_OK\nOK\nACK [50@0] {play} No such song\n";
    let run_ref = |flavor: Flavor| {
        let script = Script { stream: reference, cuts: &[7, 30], end: EndAnswer::Eof, pending_mask: 0, cancel_mask: 0, cancel_twice_mask: 0, send_after_cancel: false, via_command: false };
        run_session(flavor, &script, 8, false).0
    };
    let greet = |g: &[u8], cuts: &[usize], flavor: Flavor| {
        let script = Script { stream: g, cuts, end: EndAnswer::Eof, pending_mask: 0, cancel_mask: 0, cancel_twice_mask: 0, send_after_cancel: false, via_command: false };
        run_connect(flavor, &script).0
    };
    // (the handshakes first: they report the version, and the first handshake after a failed one is where leftovers show)
    let before = (greet(b"OK MPD 0.23.5\n", &[5], Flavor::Sync), greet(b"OK MPD 0.23.5\n", &[5], Flavor::Async), run_ref(Flavor::Sync), run_ref(Flavor::Async));
    for (what, stream) in [("a response cut after a complete line", &b"volume: 40\nstate: pl"[..]), ("a list reply cut after its first frame", &b"n: 1\nlist_OK\nn: 2\n"[..]), ("a response cut inside its binary part", &b"size: 9\nbinary: 9\nabc"[..])] {
        for flavor in [Flavor::Sync, Flavor::Async] {
            let script = Script { stream, cuts: &[4], end: EndAnswer::Eof, pending_mask: 0, cancel_mask: 0, cancel_twice_mask: 0, send_after_cancel: false, via_command: false };
            let _ = run_session(flavor, &script, 8, false);
            let _ = greet(b"garbage\n", &[], flavor);
            let _ = greet(b"OK MPD 0.2", &[3], flavor);
            let after = (greet(b"OK MPD 0.23.5\n", &[5], Flavor::Sync), greet(b"OK MPD 0.23.5\n", &[5], Flavor::Async), run_ref(Flavor::Sync), run_ref(Flavor::Async));
            acc.sessions += 7;
            if after != before {
                acc.viol.push(Violation::new(
                    format!("{kind}/connection-depends-on-an-earlier-connection"),
                    format!("after another connection of the same thread ended with {what} ({flavor:?}) and two handshakes failed, the reference stream / greeting is decoded differently: handshakes {:?} / {:?} instead of {:?} / {:?}, sessions {:?} instead of {:?}", after.0, after.1, before.0, before.1, describe_session(&after.2), describe_session(&before.2)),
                    json!({"kind": "independence-probe"}),
                ));
                return;
            }
        }
    }
}

pub fn run_c03(tier: Tier) -> i32 {
    let mut ctx = Ctx::new("C03", tier, "model_checking");
    let mut probe = Acc::default();
    proto_independence_probe("C03", &mut probe);
    ctx.assume("well-formed server output is what mpdref::wire::Wire::encode produces for the bounded grammar (fields over 3 keys x 12 values, 8 binary payloads, 144 errors, single/list/error forms, sequences of responses)");
    ctx.assume("expected values are computed from the abstract response, independently of the parser; encoder and reference decoder of mpdref are cross-checked on every stream");
    let items = c03_items(tier);
    let (all_upto, two_upto, three_upto) = tier.pick((12, 72, 0), (18, 160, 56));
    let acc = items
        .par_iter()
        .map(|(ws, pos)| {
            let mut acc = Acc::default();
            let (stream, bounds) = encode_items(ws, *pos);
            let expected: Vec<AResponse> = ws.iter().map(|w| w.expected()).collect();
            // mpdref cross-check: two independent pieces must agree before either is an oracle
            let d = ref_decode(&stream);
            if d.end != RefEnd::Clean || d.responses != expected || d.boundaries != bounds {
                machinery_error(&format!("mpdref encoder and reference decoder disagree on {:?}", show_bytes(&stream[..stream.len().min(200)])));
            }
            acc.streams += 1;
            let nontrivial = ws.len() > 1
                || ws.iter().any(|w| !matches!(w, Wire::Single(f) if f.binary.is_none() && f.fields.iter().all(|(_, v)| !["OK", "list_OK", "ACK [5@0] {} x", "binary: 3", "k: v", ""].contains(&v.as_str()))));
            if nontrivial {
                acc.nontrivial += 1;
            }
            let expect = Expect { responses: expected, ends: vec![Terminal::Clean], alt: None };
            let sets = if stream.len() > 600 { long_segsets(&stream, tier == Tier::Thorough) } else { segsets(stream.len(), all_upto, two_upto, three_upto) };
            for cuts in &sets {
                for flavor in [Flavor::Sync, Flavor::Async] {
                    check_session("C03", &stream, cuts, flavor, 0, EndAnswer::Eof, &expect, false, &mut acc, &default_sig("C03"));
                }
                // a receive() that is abandoned at its second read, a command sent, and receive()
                // called again (the idle/noidle pattern): what had been decoded must not be lost
                if !cuts.is_empty() && cuts.len() <= 2 {
                    check_session("C03", &stream, cuts, Flavor::Async, (0b10 << 32) | SEND_AFTER_CANCEL, EndAnswer::Eof, &expect, false, &mut acc, &default_sig("C03"));
                }
            }
            if acc.samples.is_empty() && stream.len() > 20 && stream.len() < 80 {
                acc.samples.push(json!({"stream": show_bytes(&stream), "expected": expect.responses.iter().map(|r| r.to_json()).collect::<Vec<_>>(), "segmentations_tried": sets.len()}));
            }
            acc
        })
        .reduce(Acc::default, Acc::merge);
    let multis = multi_binary_streams(tier.pick(2, 3));
    let acc_multi = multis
        .par_iter()
        .map(|(name, ws)| {
            let mut acc = Acc::default();
            let (stream, bounds) = encode_items(ws, BinPos::Last);
            let expected: Vec<AResponse> = ws.iter().map(|w| w.expected()).collect();
            acc.streams += 1;
            acc.nontrivial += 1;
            let expect = Expect { responses: expected, ends: vec![Terminal::Clean], alt: None };
            let sets = multi_segsets(&stream, &bounds);
            for cuts in &sets {
                for flavor in [Flavor::Sync, Flavor::Async] {
                    check_session("C03", &stream, cuts, flavor, 0, EndAnswer::Eof, &expect, false, &mut acc, &default_sig("C03"));
                }
            }
            if name.contains("[8192, 8192]") {
                acc.samples.push(json!({"multi_binary_stream": name, "bytes": stream.len(), "segmentations_tried": sets.len()}));
            }
            acc
        })
        .reduce(Acc::default, Acc::merge);
    // long histories of distinct field names, the second response read in small pieces with the
    // receive abandoned (and a command sent) at each of its first reads
    let histories: Vec<(usize, usize)> = [200usize, 240, 250, 254, 255, 256, 257, 300, 510, 520].into_iter().flat_map(|p| [(p, 12usize), (p, 30)]).collect();
    let acc_hist = histories
        .par_iter()
        .map(|(prior, fresh)| {
            let mut acc = Acc::default();
            let ws = many_names_history(*prior, *fresh);
            let (stream, bounds) = encode_items(&ws, BinPos::Last);
            let expected: Vec<AResponse> = ws.iter().map(|w| w.expected()).collect();
            acc.streams += 1;
            acc.nontrivial += 1;
            let expect = Expect { responses: expected, ends: vec![Terminal::Clean], alt: None };
            for piece in [24usize, 56, 120] {
                // first response in one read, then pieces
                let mut cuts = vec![bounds[0]];
                let mut p = bounds[0] + piece;
                while p < stream.len() {
                    cuts.push(p);
                    p += piece;
                }
                for flavor in [Flavor::Sync, Flavor::Async] {
                    check_session("C03", &stream, &cuts, flavor, 0, EndAnswer::Eof, &expect, false, &mut acc, &default_sig("C03"));
                }
                for cm in [0b10u64, 0b100, 0b1000, 0b110, 0b1010, 0b11110] {
                    check_session("C03", &stream, &cuts, Flavor::Async, cm << 32, EndAnswer::Eof, &expect, false, &mut acc, &default_sig("C03"));
                    check_session("C03", &stream, &cuts, Flavor::Async, (cm << 32) | SEND_AFTER_CANCEL, EndAnswer::Eof, &expect, false, &mut acc, &default_sig("C03"));
                }
            }
            acc
        })
        .reduce(Acc::default, Acc::merge);
    let acc = acc.merge(acc_multi).merge(acc_hist).merge(probe);
    let cov = proto_coverage(&acc, "every abstract response of the bounded grammar (tier A: all field lists of <=2 fields over 3 keys x 12 values, and <=1 field x 8 binary payloads, binary first/last; tier B: all lists of <=2/3 frames over 6 representative frames, every error after every partial output; tier C: all sequences of <=2/3 responses over 8 representatives) x every segmentation in the stated sets x {blocking, async}; plus every sequence of <=2/3 large binary components (sizes 10..17000 straddling the 4 KiB buffer and its doublings) as separate responses and as one list, under fill-the-buffer reads, network-like chunk sizes and cuts around every component boundary; connection histories of 200..520 distinct field names followed by a list response read in 24/56/120-byte pieces with the receive abandoned (and a command sent) at its first reads; non-trivial = streams with several responses, a list/error form, a binary part, or a value that mimics a protocol keyword", json!({"all_compositions_upto_len": all_upto, "upto_2_cuts_upto_len": two_upto, "upto_3_cuts_upto_len": three_upto, "long_streams": "every single cut, pairs near structural boundaries, chunk sizes 1,2,3,7,4095,4096,4097"}));
    finish(&ctx, cov, acc.viol)
}

fn proto_coverage(acc: &Acc, rule: &str, bounds: Value) -> Coverage {
    let mut cov = Coverage::default();
    cov.evaluations = acc.sessions;
    cov.distinct_nontrivial = acc.nontrivial;
    cov.rule = rule.to_string();
    cov.states = acc.streams;
    cov.transitions = acc.reads;
    cov.traces = acc.sessions;
    cov.exhaustive = true;
    cov.samples = acc.samples.clone();
    cov.set("streams", json!(acc.streams));
    cov.set("receive_sessions", json!(acc.sessions));
    cov.set("distinct_session_outcomes", json!(acc.outcomes.len()));
    cov.set("largest_read_buffer_seen", json!(acc.max_buf));
    cov.set("bounds", bounds);
    cov.set("state_meaning", json!("states = distinct byte streams; transitions = read calls answered by the scripted transport; evaluations = complete connect+receive sessions on the real connection types"));
    cov
}

// ---------------------------------------------------------------------------------------------
// C02

fn corruptions(stream: &[u8], subs: &[u8]) -> Vec<Vec<u8>> {
    let mut out = Vec::new();
    for i in 0..stream.len() {
        for &b in subs {
            if stream[i] != b {
                let mut s = stream.to_vec();
                s[i] = b;
                out.push(s);
            }
        }
        let mut s = stream.to_vec();
        s.remove(i);
        out.push(s);
    }
    for i in 0..=stream.len() {
        for &b in subs {
            let mut s = stream.to_vec();
            s.insert(i, b);
            out.push(s);
        }
    }
    out
}

/// One text line longer than a mebibyte (and than eight doublings of the receive buffer) between
/// two ordinary responses: whatever limit or growth policy applies must not depend on how the
/// line is cut into reads.
pub fn huge_line_stream() -> Vec<u8> {
    let mut s = b"a: before\nOK\nFoo_bar: ".to_vec();
    s.extend(std::iter::repeat(b"0123456789abcdef".iter().copied()).flatten().take(1_200_000));
    s.extend_from_slice(b"\na: tail\nOK\na: after\nOK\n");
    s
}

fn c02_check_stream(stream: &[u8], sets: &[Vec<usize>], pendings: &[u64], acc: &mut Acc) {
    acc.streams += 1;
    // baseline: blocking connection, one read
    let script = Script { stream, cuts: &[], end: EndAnswer::Eof, pending_mask: 0, cancel_mask: 0, cancel_twice_mask: 0, send_after_cancel: false, via_command: false };
    let (base, _) = run_session(Flavor::Sync, &script, 64, false);
    let expect = Expect { responses: base.responses.clone(), ends: vec![base.end.clone()], alt: None };
    if matches!(base.end, Terminal::Panic(_) | Terminal::Hang) {
        // C09's business; still a difference if other segmentations behave differently
    }
    // through command() the end of the stream shows as an error of the command that got no reply: the responses
    // must be the same ones, the outcome the baseline's (a clean end becomes "ended without a response")
    let via_cmd_expect = {
        let end = if base.end == Terminal::Clean { Terminal::UnexpectedEof } else { base.end.clone() };
        Expect { responses: base.responses.clone(), ends: vec![end], alt: None }
    };
    for (ci, cuts) in sets.iter().enumerate() {
        if ci < 64 || ci % 16 == 0 {
            for flavor in [Flavor::Sync, Flavor::Async] {
                check_session("C02", stream, cuts, flavor, VIA_COMMAND, EndAnswer::Eof, &via_cmd_expect, false, acc, &|_s| "C02/segmentation-dependent-through-command".to_string());
            }
        }
        for flavor in [Flavor::Sync, Flavor::Async] {
            check_session("C02", stream, cuts, flavor, 0, EndAnswer::Eof, &expect, false, acc, &|_s| "C02/segmentation-dependent".to_string());
        }
        for &m in pendings {
            check_session("C02", stream, cuts, Flavor::Async, m, EndAnswer::Eof, &expect, false, acc, &|_s| "C02/pending-dependent".to_string());
            // the same positions, but the receive() future is dropped there and receive() called anew
            check_session("C02", stream, cuts, Flavor::Async, m << 32, EndAnswer::Eof, &expect, false, acc, &|_s| "C02/cancellation-dependent".to_string());
            check_session("C02", stream, cuts, Flavor::Async, (m & 0b111) << 48, EndAnswer::Eof, &expect, false, acc, &|_s| "C02/cancellation-dependent".to_string());
            // … and a command is sent on the connection before receive() is called again
            check_session("C02", stream, cuts, Flavor::Async, ((m & 0x7fff) << 32) | SEND_AFTER_CANCEL, EndAnswer::Eof, &expect, false, acc, &|_s| "C02/cancellation-dependent".to_string());
        }
    }
}

pub fn run_c02(tier: Tier) -> i32 {
    let mut ctx = Ctx::new("C02", tier, "model_checking");
    let mut probe = Acc::default();
    proto_independence_probe("C02", &mut probe);
    ctx.assume("the response stream starts after the handshake (greeting delivered in its own read: a conforming server does not speak before it is asked)");
    ctx.assume("differential oracle: the blocking connection fed the whole stream in one read is the baseline; no reference model is needed");
    let thorough = tier == Tier::Thorough;
    // well-formed streams
    let mut streams: Vec<Vec<u8>> = Vec::new();
    for (ws, pos) in c03_items(Tier::Quick).iter().step_by(tier.pick(5, 3)) {
        streams.push(encode_items(ws, *pos).0);
    }
    let wf = streams.len();
    // truncations and single-byte corruptions of a sub-pool
    let pool: Vec<Vec<u8>> = seq_pool().iter().map(|w| encode_items(&[w.clone(), Wire::Single(crate::mpdref::wire::AFrame::new(&[("a", "v")]))], BinPos::Last).0).collect();
    for s in &pool {
        for p in 0..s.len() {
            streams.push(s[..p].to_vec());
        }
        let subs: &[u8] = if thorough { &[b'\n', 0, 0xff, b' ', b':', b'9', b'K'] } else { &[b'\n', 0xff, b':'] };
        streams.extend(corruptions(s, subs));
    }
    let (all_upto, two_upto, three_upto) = tier.pick((12, 48, 0), (15, 64, 30));
    let pend: Vec<u64> = if thorough { vec![0b1, 0b10, 0b101, 0b1000] } else { vec![0b1, 0b10] };
    let acc = streams
        .par_iter()
        .map(|s| {
            let mut acc = Acc::default();
            if s.len() > 600 {
                let sets = long_segsets(s, thorough);
                c02_check_stream(s, &sets, &[], &mut acc);
            } else {
                let sets = segsets(s.len(), all_upto, two_upto, three_upto);
                c02_check_stream(s, &sets, &pend, &mut acc);
            }
            acc.nontrivial += 1;
            acc
        })
        .reduce(Acc::default, Acc::merge);
    // long streams around the buffer sizes
    let longs = long_streams(thorough);
    let acc_long = longs
        .par_iter()
        .map(|(name, ws)| {
            let mut acc = Acc::default();
            let (s, bounds) = encode_items(ws, BinPos::Last);
            // (the exact-buffer-size streams are about reads that fill the buffer to its last byte:
            // fill-the-buffer reads, chunk sizes and cuts around boundaries and doublings, not every cut)
            let sets = if name.contains("exactly") { multi_segsets(&s, &bounds) } else { long_segsets(&s, thorough) };
            c02_check_stream(&s, &sets, if thorough { &[0b1] } else { &[0b1, 0b100] }, &mut acc);
            acc.nontrivial += 1;
            acc.samples.push(json!({"long_stream": name, "bytes": s.len(), "segmentations": sets.len()}));
            acc
        })
        .reduce(Acc::default, Acc::merge);
    let multis = multi_binary_streams(tier.pick(2, 3));
    let acc_multi = multis
        .par_iter()
        .map(|(name, ws)| {
            let mut acc = Acc::default();
            let (s, bounds) = encode_items(ws, BinPos::Last);
            let sets = multi_segsets(&s, &bounds);
            c02_check_stream(&s, &sets, &[], &mut acc);
            acc.nontrivial += 1;
            if name.contains("[9000, 9000]") {
                acc.samples.push(json!({"multi_binary_stream": name, "bytes": s.len(), "segmentations": sets.len()}));
            }
            acc
        })
        .reduce(Acc::default, Acc::merge);
    // a text line of 1.2 MB
    let mut acc_huge = Acc::default();
    {
        let huge = huge_line_stream();
        let n = huge.len();
        let sets: Vec<Vec<usize>> = vec![vec![], chunked(n, 65536), chunked(n, 11680), vec![1_100_000], vec![1_048_600, 1_150_000], vec![24, n - 30], vec![4096 + 23], vec![1 << 20]];
        c02_check_stream(&huge, &sets, &[], &mut acc_huge);
        acc_huge.nontrivial += 1;
    }
    // thousands of short lines arriving in ONE read (round 6: a per-call budget of lines in the parser): a
    // 40 KB value first, so that both connections' buffers have grown and a single read can carry them all
    let many: &[usize] = if thorough { &[1023, 1024, 1025, 2048, 2049, 4097, 6000, 20000, 70000] } else { &[1025, 6000] };
    let acc_many = many
        .par_iter()
        .map(|&count| {
            let mut acc = Acc::default();
            let grow = AFrame { fields: vec![("a".into(), "g".repeat(40_000))], binary: None };
            let lines = AFrame { fields: (0..count).map(|i| ("a".to_string(), (i % 10).to_string())).collect(), binary: None };
            let ws = vec![Wire::Single(grow), Wire::Single(lines.clone()), Wire::Single(AFrame::new(&[("a", "after")])), Wire::List(vec![lines, AFrame::new(&[("b", "x")])])];
            let (s, _) = encode_items(&ws, BinPos::Last);
            let n = s.len();
            let sets: Vec<Vec<usize>> = vec![vec![], chunked(n, 1 << 20), chunked(n, 65536), chunked(n, 16384), chunked(n, 8192), chunked(n, 4096), chunked(n, 1460), vec![40_006], vec![40_006, 40_006 + 5 * 1024]];
            c02_check_stream(&s, &sets, &[], &mut acc);
            acc.nontrivial += 1;
            acc
        })
        .reduce(Acc::default, Acc::merge);
    // (round 7) a response whose tail is byte-identical to an earlier, complete response on the same connection
    // (status, then a list that ends with the same status lines): whatever the library remembers of earlier
    // responses must not show - every single cut, every chunk size
    let mut acc_rep = Acc::default();
    for extra in [0usize, 3, 40] {
        let mut fields: Vec<(&str, String)> = vec![("volume", "50".into()), ("repeat", "0".into()), ("state", "play".into()), ("song", "12".into()), ("elapsed", "1.234".into()), ("bitrate", "320".into()), ("audio", "44100:16:2".into())];
        for i in 0..extra {
            fields.push(("x", format!("filler {i}")));
        }
        let fr: Vec<(&str, &str)> = fields.iter().map(|(k, v)| (*k, v.as_str())).collect();
        let r = AFrame::new(&fr);
        let mut with_head = vec![("file", "x.flac"), ("Title", "t")];
        with_head.extend(fr.iter().copied());
        let s2 = AFrame::new(&with_head);
        for ws in [vec![Wire::Single(r.clone()), Wire::Single(s2.clone()), Wire::Single(r.clone())], vec![Wire::Single(r.clone()), Wire::List(vec![AFrame::new(&[("file", "x.flac")]), r.clone()]), Wire::Single(s2.clone())]] {
            let (st, _) = encode_items(&ws, BinPos::Last);
            let n = st.len();
            let mut sets = upto_k_cuts(n, 1);
            for c in [1usize, 2, 3, 5, 7, 16, 64] {
                sets.push(chunked(n, c));
            }
            c02_check_stream(&st, &sets, &[0b10], &mut acc_rep);
            acc_rep.nontrivial += 1;
        }
    }
    let mut acc = acc.merge(acc_long).merge(acc_multi).merge(acc_huge).merge(acc_many).merge(acc_rep).merge(probe);
    acc.samples.push(json!({"well_formed_streams": wf, "truncated_and_corrupted_streams": streams.len() - wf, "long_streams": longs.len()}));
    let cov = proto_coverage(
        &acc,
        "byte streams = well-formed grammar streams, every truncation and single-byte substitution/deletion/insertion of 8 two-response streams, long responses with boundaries at 4096/8192/16384 +-1 and binary payloads of 4000..8300 bytes, and every sequence of <=2/3 large binary components (10..17000 bytes) as separate responses and as one list, and one text line of 1.2 MB between ordinary responses (8 segmentations), and responses of 1025 / 6000 (thorough: 1023..70000) five-byte lines behind a 40 KB value, in one read and in 1460..2^20-byte reads, and responses whose tail repeats an earlier response byte for byte (every single cut); every segmentation also with the session driven through command() instead of receive(); x every segmentation of the stated sets x {blocking, async} x Pending answers; each stream is distinct and counts as non-trivial (all have >= 2 segmentations)",
        json!({"all_compositions_upto_len": all_upto, "upto_2_cuts_upto_len": two_upto, "upto_3_cuts_upto_len": three_upto, "pending_masks": pend, "long_streams": "every (quick: every third) single cut, +-3 around every structural boundary, pairs near boundaries, chunk sizes 1,2,3,7,4095,4096,4097"}),
    );
    finish(&ctx, cov, acc.viol)
}

// ---------------------------------------------------------------------------------------------
// C10

pub fn run_c10(tier: Tier) -> i32 {
    let mut ctx = Ctx::new("C10", tier, "fault_enumeration");
    let mut probe = Acc::default();
    proto_independence_probe("C10", &mut probe);
    ctx.assume("response boundaries are the ones the harness-side encoder recorded (cross-checked with the reference decoder)");
    let thorough = tier == Tier::Thorough;
    let mut items: Vec<(Vec<Wire>, BinPos)> = c03_items(Tier::Quick).into_iter().step_by(tier.pick(4, 1)).collect();
    for s in sequences(2) {
        items.push((s, BinPos::Last));
    }
    let acc = items
        .par_iter()
        .map(|(ws, pos)| {
            let mut acc = Acc::default();
            let (stream, bounds) = encode_items(ws, *pos);
            if stream.len() > 400 && !thorough {
                return acc;
            }
            let expected: Vec<AResponse> = ws.iter().map(|w| w.expected()).collect();
            acc.streams += 1;
            let positions: Vec<usize> = if stream.len() > 400 {
                // long binary: cuts around structural points only
                let mut p = structural_points(&stream);
                let mut q = Vec::new();
                for x in p.drain(..) {
                    for d in -2i64..=2 {
                        let y = x as i64 + d;
                        if y >= 0 && y as usize <= stream.len() {
                            q.push(y as usize);
                        }
                    }
                }
                q.push(0);
                q.push(stream.len());
                q.sort();
                q.dedup();
                q
            } else {
                (0..=stream.len()).collect()
            };
            for &p in &positions {
                let prefix = &stream[..p];
                let k = bounds.iter().filter(|&&b| b <= p).count();
                let on_boundary = p == 0 || bounds.contains(&p);
                let expect = Expect { responses: expected[..k].to_vec(), ends: vec![if on_boundary { Terminal::Clean } else { Terminal::UnexpectedEof }], alt: None };
                acc.nontrivial += 1;
                let mut sets: Vec<Vec<usize>> = vec![vec![], chunked(p, 1)];
                if p <= 200 {
                    for c in 1..p {
                        sets.push(vec![c]);
                    }
                }
                let sigf = |s: &Session| match (&s.end, on_boundary) {
                    (Terminal::Clean, false) => "C10/unclean-eof-reported-clean".to_string(),
                    (Terminal::UnexpectedEof, true) => "C10/clean-eof-reported-unclean".to_string(),
                    (Terminal::Panic(_), _) => "C10/panic".to_string(),
                    _ => "C10/mismatch".to_string(),
                };
                // (round 7) a transport that fails instead of ending (connection reset): not an end of stream at
                // all - the responses in front of it are delivered and the error is reported, wherever it strikes
                {
                    let expect_err = Expect { responses: expected[..k].to_vec(), ends: vec![Terminal::Io("ConnectionReset".to_string())], alt: None };
                    let sigf_err = |s: &Session| match &s.end {
                        Terminal::Clean => "C10/transport-error-reported-as-clean-close".to_string(),
                        Terminal::Panic(_) => "C10/panic".to_string(),
                        _ => "C10/mismatch".to_string(),
                    };
                    for cuts in sets.iter().take(2) {
                        for flavor in [Flavor::Sync, Flavor::Async] {
                            check_session("C10", prefix, cuts, flavor, 0, EndAnswer::Error, &expect_err, false, &mut acc, &sigf_err);
                        }
                    }
                }
                for cuts in &sets {
                    for flavor in [Flavor::Sync, Flavor::Async] {
                        check_session("C10", prefix, cuts, flavor, 0, EndAnswer::Eof, &expect, false, &mut acc, &sigf);
                    }
                    // receive() futures dropped at the first / second / both / third read (what a
                    // `select!` around receive() does) and receive() called again
                    for cm in [0b1u64, 0b10, 0b11, 0b110, 0b111] {
                        check_session("C10", prefix, cuts, Flavor::Async, cm << 32, EndAnswer::Eof, &expect, false, &mut acc, &sigf);
                    }
                    // … dropped twice in a row at the same read
                    for cm in [0b1u64, 0b10, 0b100] {
                        check_session("C10", prefix, cuts, Flavor::Async, cm << 48, EndAnswer::Eof, &expect, false, &mut acc, &sigf);
                    }
                    // … and a command sent before receive() is called again
                    for cm in [0b1u64, 0b10, 0b11] {
                        check_session("C10", prefix, cuts, Flavor::Async, (cm << 32) | SEND_AFTER_CANCEL, EndAnswer::Eof, &expect, false, &mut acc, &sigf);
                    }
                }
            }
            if acc.samples.is_empty() && stream.len() < 60 && bounds.len() == 2 {
                acc.samples.push(json!({"stream": show_bytes(&stream), "response_boundaries": bounds, "cut_positions": positions.len()}));
            }
            acc
        })
        .reduce(Acc::default, Acc::merge);
    // several large components in a row: cuts around every component boundary, with reads that
    // fill the buffer / network-like chunks
    let multis = multi_binary_streams(tier.pick(2, 3));
    let macc = multis
        .par_iter()
        .map(|(_, ws)| {
            let mut acc = Acc::default();
            let (stream, bounds) = encode_items(ws, BinPos::Last);
            let expected: Vec<AResponse> = ws.iter().map(|w| w.expected()).collect();
            acc.streams += 1;
            let mut positions: Vec<usize> = Vec::new();
            for &b in &bounds {
                for d in [-2i64, -1, 0, 1, 2, 9, 40] {
                    let y = b as i64 + d;
                    if y >= 0 && y as usize <= stream.len() {
                        positions.push(y as usize);
                    }
                }
            }
            // ... and at a fixed stride through the whole stream (most of it is payload), so that a cut
            // deep inside every large component is tried as well
            positions.extend((0..=stream.len()).step_by(997));
            positions.sort();
            positions.dedup();
            for &p in &positions {
                let prefix = &stream[..p];
                let k = bounds.iter().filter(|&&b| b <= p).count();
                let on_boundary = p == 0 || bounds.contains(&p);
                let expect = Expect { responses: expected[..k].to_vec(), ends: vec![if on_boundary { Terminal::Clean } else { Terminal::UnexpectedEof }], alt: None };
                acc.nontrivial += 1;
                let sigf = |s: &Session| match (&s.end, on_boundary) {
                    (Terminal::Clean, false) => "C10/unclean-eof-reported-clean".to_string(),
                    (Terminal::UnexpectedEof, true) => "C10/clean-eof-reported-unclean".to_string(),
                    _ => "C10/mismatch".to_string(),
                };
                for cuts in [vec![], chunked(p, 1460), chunked(p, 4096), chunked(p, 8192), chunked(p, 16384)] {
                    for flavor in [Flavor::Sync, Flavor::Async] {
                        check_session("C10", prefix, &cuts, flavor, 0, EndAnswer::Eof, &expect, false, &mut acc, &sigf);
                    }
                }
            }
            acc
        })
        .reduce(Acc::default, Acc::merge);
    // long histories of distinct field names: the stream is cut after every complete line of the
    // list response that follows them, which is read in pieces with the receive abandoned on the way
    let hacc = [(250usize, 30usize), (256, 30), (510, 30)]
        .par_iter()
        .map(|(prior, fresh)| {
            let mut acc = Acc::default();
            let ws = many_names_history(*prior, *fresh);
            let (stream, bounds) = encode_items(&ws, BinPos::Last);
            let expected: Vec<AResponse> = ws.iter().map(|w| w.expected()).collect();
            acc.streams += 1;
            let line_ends: Vec<usize> = (bounds[0]..bounds[1]).filter(|&i| stream[i] == b'\n').map(|i| i + 1).collect();
            for &p in &line_ends {
                let prefix = &stream[..p];
                let k = bounds.iter().filter(|&&b| b <= p).count();
                let on_boundary = bounds.contains(&p);
                let expect = Expect { responses: expected[..k].to_vec(), ends: vec![if on_boundary { Terminal::Clean } else { Terminal::UnexpectedEof }], alt: None };
                acc.nontrivial += 1;
                let sigf = |s: &Session| match (&s.end, on_boundary) {
                    (Terminal::Clean, false) => "C10/unclean-eof-reported-clean".to_string(),
                    (Terminal::UnexpectedEof, true) => "C10/clean-eof-reported-unclean".to_string(),
                    _ => "C10/mismatch".to_string(),
                };
                for piece in [56usize, 120] {
                    let mut cuts = vec![bounds[0]];
                    let mut q = bounds[0] + piece;
                    while q < p {
                        cuts.push(q);
                        q += piece;
                    }
                    for cm in [0u64, 0b100, 0b1000, 0b1100, 0b11100] {
                        check_session("C10", prefix, &cuts, Flavor::Async, cm << 32, EndAnswer::Eof, &expect, false, &mut acc, &sigf);
                        if cm != 0 {
                            check_session("C10", prefix, &cuts, Flavor::Async, (cm << 32) | SEND_AFTER_CANCEL, EndAnswer::Eof, &expect, false, &mut acc, &sigf);
                        }
                    }
                    check_session("C10", prefix, &cuts, Flavor::Sync, 0, EndAnswer::Eof, &expect, false, &mut acc, &sigf);
                }
            }
            acc
        })
        .reduce(Acc::default, Acc::merge);
    let acc = acc.merge(macc).merge(hacc);
    // greetings: a proper prefix of a valid greeting is an unexpected EOF
    let mut gacc = Acc::default();
    for g in [&b"OK MPD 0.23.5\n"[..], b"OK MPD x\n"] {
        for p in 0..g.len() {
            for cuts in all_compositions(p.max(1)) {
                for flavor in [Flavor::Sync, Flavor::Async] {
                    let script = Script { stream: &g[..p], cuts: &cuts, end: EndAnswer::Eof, pending_mask: 0, cancel_mask: 0, cancel_twice_mask: 0, send_after_cancel: false, via_command: false };
                    let (r, st) = run_connect(flavor, &script);
                    gacc.sessions += 1;
                    gacc.reads += st.reads.get();
                    if r != ConnectResult::End(Terminal::UnexpectedEof) {
                        gacc.viol.push(Violation::new("C10/greeting-prefix", format!("{flavor:?} connect on {:?} + EOF gave {r:?}", show_bytes(&g[..p])), json!({"kind": "greeting", "stream_hex": hex(&g[..p]), "cuts": cuts, "flavor": format!("{flavor:?}")})));
                    }
                }
            }
        }
    }
    let acc = acc.merge(gacc).merge(probe);
    let cov = proto_coverage(
        &acc,
        "every stream of the bounded response grammar x every cut position 0..=n (stream truncated there, then EOF) x {one read, one byte at a time, every single cut of the surviving prefix} x {blocking, async, the same with a transport error (connection reset) instead of the end, async with the receive() future dropped at the 1st/2nd/3rd read and called again}; sequences of large binary components (with fields in front, and bare) cut around every component boundary and every 997 bytes; plus every proper prefix of two greetings under all segmentations; non-trivial = (stream, cut position) pairs",
        json!({"cut_positions": "all", "long_streams": "cuts within +-2 of structural boundaries (thorough tier)"}),
    );
    finish(&ctx, cov, acc.viol)
}

// ---------------------------------------------------------------------------------------------
// C09

fn c09_expect(stream: &[u8]) -> Expect {
    let of = |d: crate::mpdref::wire::RefDecoded| {
        let ends = match d.end {
            RefEnd::Clean => vec![Terminal::Clean],
            RefEnd::Malformed => vec![Terminal::Invalid],
            RefEnd::Early => vec![Terminal::UnexpectedEof, Terminal::Invalid],
        };
        Expect { responses: d.responses, ends, alt: None }
    };
    let mut strict = of(ref_decode(stream));
    // field names outside the library's present alphabet: rejecting such a line and delivering it
    // verbatim are both right, line by line (the outcome is decided by the first one rejected)
    let (_, unspecified) = crate::mpdref::wire::ref_decode_with(stream, usize::MAX);
    let mut chain: Option<Box<Expect>> = None;
    for k in (1..=unspecified.min(6)).rev() {
        let mut e = of(crate::mpdref::wire::ref_decode_with(stream, k).0);
        e.alt = chain.take();
        chain = Some(Box::new(e));
    }
    strict.alt = chain;
    strict
}

fn c09_sig(stream: &[u8]) -> impl Fn(&Session) -> String + '_ {
    move |s: &Session| {
        match &s.end {
            Terminal::Panic(_) => return "C09/panic".to_string(),
            Terminal::Hang => return "C09/hang".to_string(),
            _ => {}
        }
        // a `binary: <digits>` header whose number does not fit usize treated as a field?
        let d = ref_decode(stream);
        if d.end == RefEnd::Malformed {
            if let Some(at) = d.malformed_at {
                let line_end = stream[at..].iter().position(|&b| b == b'\n').map(|p| at + p).unwrap_or(stream.len());
                let line = &stream[at..line_end];
                if let Some(rest) = line.strip_prefix(b"binary: ") {
                    if !rest.is_empty() && rest.iter().all(|b| b.is_ascii_digit()) && rest.len() >= 20 {
                        return "C09/binary-length-overflow-read-as-field".to_string();
                    }
                }
                return "C09/malformed-line-accepted".to_string();
            }
        }
        "C09/mismatch".to_string()
    }
}

fn c09_check_stream(stream: &[u8], sets: &[Vec<usize>], acc: &mut Acc) {
    acc.streams += 1;
    let expect = c09_expect(stream);
    if expect.ends != vec![Terminal::Clean] {
        acc.nontrivial += 1;
    }
    let sig = c09_sig(stream);
    for cuts in sets {
        for flavor in [Flavor::Sync, Flavor::Async] {
            check_session("C09", stream, cuts, flavor, 0, EndAnswer::Eof, &expect, true, acc, &sig);
        }
    }
}

pub fn numeric_edges() -> Vec<Vec<u8>> {
    let nums = ["0", "1", "4294967296", "9223372036854775808", "18446744073709551615", "18446744073709551616", "100000000000000000000", "10000000000000000000000000000000000000000", "007", "+1", "-1", ""];
    let mut out = Vec::new();
    for n in nums {
        out.push(format!("binary: {n}\nabc\nOK\n").into_bytes());
        out.push(format!("a: b\nbinary: {n}\n").into_bytes());
        out.push(format!("binary: {n}\n\nOK\n").into_bytes());
        for m in nums {
            out.push(format!("ACK [{n}@{m}] {{}} msg\n").into_bytes());
        }
        out.push(format!("list_OK\nACK [{n}@1] {{play}} x\nOK\n").into_bytes());
    }
    // lengths in non-canonical decimal spelling, with exactly that many payload bytes
    for s in ["binary: 003\nabc\nOK\n", "binary: 0005\nhello\nOK\n", "binary: 00\n\nOK\n", "a: b\nbinary: 01\nx\nOK\nc: d\nOK\n", "binary: 010\n0123456789\nlist_OK\nbinary: 1\ny\nlist_OK\nOK\n"] {
        out.push(s.as_bytes().to_vec());
    }
    out
}

/// the numeric-edge sweep itself (runs in the child process)
pub fn c09_edges(tier: Tier) -> Acc {
    let edges = numeric_edges();
    let mut total = Acc::default();
    for s in &edges {
        // progress marker for the parent: which stream was being processed if we die
        eprintln!("EDGE {}", hex(s));
        let mut acc = Acc::default();
        let sets = upto_k_cuts(s.len(), tier.pick(1, 2));
        c09_check_stream(s, &sets, &mut acc);
        c09_check_stream(s, &[chunked(s.len(), 1)], &mut acc);
        acc.streams -= 1;
        if total.samples.is_empty() {
            acc.samples.push(json!({"numeric_edge_stream": show_bytes(s), "reference_verdict": format!("{:?}", ref_decode(s).end)}));
        }
        total = total.merge(acc);
    }
    total
}

/// `verif C09-edges <tier>`: print the sweep's result as one JSON line
pub fn run_c09_edges_child(tier: Tier) -> i32 {
    let acc = c09_edges(tier);
    let viol: Vec<Value> = acc.viol.by_sig.iter().flat_map(|(sig, (n, ex))| ex.iter().map(move |v| json!({"sig": sig, "count": n, "what": v.what, "case": v.case}))).collect();
    println!("{}", json!({"streams": acc.streams, "sessions": acc.sessions, "reads": acc.reads, "nontrivial": acc.nontrivial, "violations": viol, "samples": acc.samples}));
    0
}

fn run_edges_in_child(tier: Tier) -> Acc {
    let exe = std::env::current_exe().unwrap_or_else(|e| machinery_error(&format!("current_exe: {e}")));
    let out = std::process::Command::new(exe).arg("C09-edges").arg(tier.as_str()).output().unwrap_or_else(|e| machinery_error(&format!("cannot start the C09 child: {e}")));
    let mut acc = Acc::default();
    let stderr = String::from_utf8_lossy(&out.stderr);
    let last_edge = stderr.lines().rev().find_map(|l| l.strip_prefix("EDGE ")).unwrap_or("").to_string();
    if !out.status.success() {
        // the subject took the whole process down (abort on allocation failure, stack overflow, …)
        let stream = unhex(&last_edge);
        acc.viol.push(Violation::new(
            "C09/process-abort",
            format!("the process died ({}) while receiving {:?}; last words: {}", out.status, show_bytes(&stream), stderr.lines().rev().find(|l| !l.starts_with("EDGE ")).unwrap_or("")),
            json!({"kind": "stream", "stream_hex": last_edge, "cuts": [], "flavor": "Sync", "pending_mask": 0, "end": "Eof", "note": "replaying this case may abort the replaying process as well"}),
        ));
        return acc;
    }
    let text = String::from_utf8_lossy(&out.stdout);
    let line = text.lines().rev().find(|l| l.starts_with('{')).unwrap_or("{}");
    let v: Value = serde_json::from_str(line).unwrap_or_else(|e| machinery_error(&format!("C09 child printed no JSON: {e}")));
    acc.streams = v["streams"].as_u64().unwrap_or(0);
    acc.sessions = v["sessions"].as_u64().unwrap_or(0);
    acc.reads = v["reads"].as_u64().unwrap_or(0);
    acc.nontrivial = v["nontrivial"].as_u64().unwrap_or(0);
    acc.samples = v["samples"].as_array().cloned().unwrap_or_default();
    for x in v["violations"].as_array().cloned().unwrap_or_default() {
        let n = x["count"].as_u64().unwrap_or(1);
        let viol = Violation::new(x["sig"].as_str().unwrap_or("C09/mismatch"), x["what"].as_str().unwrap_or(""), x["case"].clone());
        let e = acc.viol.by_sig.entry(viol.sig.clone()).or_insert((0, Vec::new()));
        if e.1.is_empty() {
            e.0 += n;
        }
        if e.1.len() < KEEP_PER_SIG {
            e.1.push(viol);
        }
    }
    if acc.sessions == 0 {
        machinery_error("C09 child ran no sessions");
    }
    acc
}

pub fn run_c09(tier: Tier) -> i32 {
    let mut ctx = Ctx::new("C09", tier, "model_checking");
    ctx.assume("the reference decoder of mpdref::wire defines which complete lines are malformed (grammar in DESIGN.md 3.5); a stream that merely stops early may be reported as UnexpectedEof or, when the partial line is already impossible, InvalidMessage");
    ctx.assume("after a terminal result receive() is called once more and must not panic or hang (its result is not judged)");
    let thorough = tier == Tier::Thorough;
    // (a) all byte strings over a 10-symbol protocol alphabet
    let alphabet: &[u8] = &[b'O', b'K', b'\n', b':', b' ', b'b', b'1', b'A', b'[', 0xff];
    let maxlen = tier.pick(6, 7);
    let strings = bytes_over(alphabet, maxlen);
    let acc_a = strings
        .par_chunks(2048)
        .map(|chunk| {
            let mut acc = Acc::default();
            for s in chunk {
                let sets: Vec<Vec<usize>> = if s.len() <= 1 { vec![vec![]] } else { vec![vec![], chunked(s.len(), 1), vec![s.len() / 2]] };
                c09_check_stream(s, &sets, &mut acc);
                // the same bytes as a greeting
                for flavor in [Flavor::Sync, Flavor::Async] {
                    for cuts in &sets {
                        let script = Script { stream: s, cuts, end: EndAnswer::Eof, pending_mask: 0, cancel_mask: 0, cancel_twice_mask: 0, send_after_cancel: false, via_command: false };
                        let (r, st) = run_connect(flavor, &script);
                        acc.sessions += 1;
                        acc.reads += st.reads.get();
                        let want = match ref_greeting(s) {
                            RefGreeting::Version(v) => vec![ConnectResult::Version(v)],
                            RefGreeting::Malformed => vec![ConnectResult::End(Terminal::Invalid)],
                            RefGreeting::Early => vec![ConnectResult::End(Terminal::UnexpectedEof)],
                        };
                        if !want.contains(&r) {
                            let sig = match &r {
                                ConnectResult::End(Terminal::Panic(_)) => "C09/connect-panic",
                                ConnectResult::End(Terminal::Hang) => "C09/connect-hang",
                                _ => "C09/connect-mismatch",
                            };
                            acc.viol.push(Violation::new(sig, format!("{flavor:?} connect on {:?} gave {r:?}, expected {want:?}", show_bytes(s)), json!({"kind": "greeting", "stream_hex": hex(s), "cuts": cuts, "flavor": format!("{flavor:?}")})));
                        }
                    }
                }
            }
            acc
        })
        .reduce(Acc::default, Acc::merge);
    // (b) corruptions of grammar streams
    let mut pool: Vec<Vec<u8>> = seq_pool().iter().map(|w| encode_items(&[w.clone()], BinPos::Last).0).collect();
    for (ws, pos) in c03_items(Tier::Quick).iter().step_by(tier.pick(40, 3)) {
        let s = encode_items(ws, *pos).0;
        if s.len() <= 80 {
            pool.push(s);
        }
    }
    let subs: &[u8] = &[b'\n', 0, 0xff, b' ', b':', b'9', b'K'];
    let acc_b = pool
        .par_iter()
        .map(|s| {
            let mut acc = Acc::default();
            let mut variants = corruptions(s, subs);
            for p in 0..s.len() {
                variants.push(s[..p].to_vec());
            }
            for v in &variants {
                let n = v.len();
                let mut sets: Vec<Vec<usize>> = vec![vec![], chunked(n, 1)];
                if thorough {
                    sets.extend(upto_k_cuts(n, 1).into_iter().skip(1));
                } else if n > 2 {
                    sets.push(vec![n / 3]);
                    sets.push(vec![n - 1]);
                }
                c09_check_stream(v, &sets, &mut acc);
            }
            acc
        })
        .reduce(Acc::default, Acc::merge);
    // (c) numeric edges — in a child process: an absurd length that makes the subject allocate
    // aborts the process instead of panicking, and an abort must become a verdict, not a crash of
    // the check
    let edges = numeric_edges();
    let acc_c = run_edges_in_child(tier);
    // (d) well-formed streams are peer bytes too: large components with more responses pipelined
    // behind them, in big and small reads (buffer growth / hand-back paths)
    let bigs = multi_binary_streams(2);
    let acc_d = bigs
        .par_iter()
        .map(|(_, ws)| {
            let mut acc = Acc::default();
            let (stream, _) = encode_items(ws, BinPos::Last);
            let n = stream.len();
            let mut sets: Vec<Vec<usize>> = vec![vec![]];
            for size in [1000usize, 4096, 4097, 8192, 65536] {
                if size < n {
                    sets.push(chunked(n, size));
                }
            }
            c09_check_stream(&stream, &sets, &mut acc);
            acc
        })
        .reduce(Acc::default, Acc::merge);
    // (e) long text in every place the parser reads text: field values, ACK messages and command names, with
    // 2-, 3- and 4-byte characters straddling every likely clip length (round 7: a log preview cut at byte 64)
    let longs = crate::props::c12::long_values();
    let acc_e = longs
        .par_iter()
        .map(|v| {
            let mut acc = Acc::default();
            for stream in [format!("a: {v}\nOK\n"), format!("Title: x\nb: {v}\nlist_OK\nOK\n"), format!("ACK [5@0] {{play}} {v}\n"), format!("a: 1\nACK [50@1] {{}} {v}\n")] {
                let stream = stream.into_bytes();
                let n = stream.len();
                c09_check_stream(&stream, &[vec![], vec![n / 2], chunked(n, 61)], &mut acc);
            }
            acc
        })
        .reduce(Acc::default, Acc::merge);
    let mut acc = acc_a.merge(acc_b).merge(acc_c).merge(acc_d).merge(acc_e);
    acc.samples.push(json!({"all_strings_over": show_bytes(alphabet), "max_len": maxlen, "count": strings.len(), "corruption_pool": pool.len(), "numeric_edge_streams": edges.len(), "large_well_formed_streams": bigs.len()}));
    let cov = proto_coverage(
        &acc,
        "(a) every byte string of length <= max_len over 10 protocol symbols, as response stream and as greeting; (b) every single-byte substitution by 7 bytes / deletion / insertion / truncation of a pool of grammar streams; (c) binary: N and ACK [N@M] for 12 numeric edge spellings; (d) well-formed streams of <=2 large binary components (10..140000 bytes) with responses pipelined behind them, in one read and in 1000..65536-byte reads; (e) field values and ACK messages of 9..4100 bytes with multi-byte characters straddling every likely clip length; everything once more with logging switched on (a subscriber interested in every trace! / debug! call site); under one-read, byte-at-a-time and single-cut segmentations, both flavours, inside catch_unwind; non-trivial = streams that are not a clean sequence of well-formed responses",
        json!({"max_len": maxlen}),
    );
    // (round 7) the whole enumeration once more with logging switched on: the library's trace! / debug! call
    // sites evaluate their arguments only then
    let (mut cov, mut viol) = (cov, acc.viol);
    logging_on_pass(&ctx, &mut cov, &mut viol);
    finish(&ctx, cov, viol)
}

// ---------------------------------------------------------------------------------------------
// C18 (protocol half): greeting accepted iff valid

pub fn c18_greetings(tier: Tier) -> Vec<Vec<u8>> {
    let mut out: Vec<Vec<u8>> = Vec::new();
    let syms: &[&[u8]] = &[b"0", b".", b"a", b" ", "\u{e9}".as_bytes(), b"\xff", b"\r"];
    let maxlen = tier.pick(3, 5);
    let mut layer: Vec<Vec<u8>> = vec![vec![]];
    let mut versions: Vec<Vec<u8>> = vec![vec![]];
    for _ in 0..maxlen {
        let mut next = Vec::new();
        for v in &layer {
            for s in syms {
                let mut t = v.clone();
                t.extend_from_slice(s);
                next.push(t);
            }
        }
        versions.extend(next.iter().cloned());
        layer = next;
    }
    for v in versions {
        let mut g = b"OK MPD ".to_vec();
        g.extend(v);
        g.push(b'\n');
        out.push(g);
    }
    for g in [&b"OK MPD\n"[..], b"OK MP 1\n", b"ok mpd 1\n", b"OK  MPD 1\n", b"OK MPD1\n", b"\n", b"OK\n", b"ACK [1@0] {} x\n", b"OK MPD 0.23.5\r\n", b" OK MPD 1\n", b"OK MPD 1\nOK\n", b"OK MPD 0.23.5\nfoo: bar\nOK\n"] {
        out.push(g.to_vec());
    }
    // overlong version (buffer doubling inside connect)
    for n in [4088usize, 4089, 4090, 5000, 9000] {
        let mut g = b"OK MPD ".to_vec();
        g.extend(std::iter::repeat(b'7').take(n));
        g.push(b'\n');
        out.push(g);
    }
    out
}

pub fn c18_proto(tier: Tier) -> Acc {
    let mut probe = Acc::default();
    proto_independence_probe("C18", &mut probe);
    let greetings = c18_greetings(tier);
    let all_upto = tier.pick(13, 16);
    greetings
        .par_iter()
        .map(|g| {
            let mut acc = Acc::default();
            acc.streams += 1;
            // every truncation (then EOF), the full greeting included
            let cutpoints: Vec<usize> = if g.len() > 64 { vec![0, 1, 7, 8, 4095, 4096, 4097, g.len() - 1, g.len()].into_iter().filter(|&p| p <= g.len()).collect() } else { (0..=g.len()).collect() };
            for &p in &cutpoints {
                let s = &g[..p];
                let want = match ref_greeting(s) {
                    RefGreeting::Version(v) => ConnectResult::Version(v),
                    RefGreeting::Malformed => ConnectResult::End(Terminal::Invalid),
                    RefGreeting::Early => ConnectResult::End(Terminal::UnexpectedEof),
                };
                acc.nontrivial += 1;
                let sets: Vec<Vec<usize>> = if s.len() <= all_upto {
                    all_compositions(s.len().max(1)).collect()
                } else if s.len() <= 64 {
                    upto_k_cuts(s.len(), 2)
                } else {
                    vec![vec![], chunked(s.len(), 1), chunked(s.len(), 4096), chunked(s.len(), 4095), vec![4096], vec![4095], vec![4097], vec![7], vec![s.len() - 1]]
                };
                for cuts in &sets {
                    for flavor in [Flavor::Sync, Flavor::Async] {
                        let script = Script { stream: s, cuts, end: EndAnswer::Eof, pending_mask: 0, cancel_mask: 0, cancel_twice_mask: 0, send_after_cancel: false, via_command: false };
                        let (r, st) = run_connect(flavor, &script);
                        acc.sessions += 1;
                        acc.reads += st.reads.get();
                        acc.max_buf = acc.max_buf.max(st.max_buf.get());
                        if r != want {
                            let sig = match (&r, &want) {
                                (ConnectResult::End(Terminal::Panic(_)), _) => "C18/connect-panic",
                                (ConnectResult::End(Terminal::Hang), _) => "C18/connect-hang",
                                (ConnectResult::Version(_), ConnectResult::End(_)) => "C18/invalid-greeting-accepted",
                                (ConnectResult::End(_), ConnectResult::Version(_)) => "C18/valid-greeting-rejected",
                                (ConnectResult::Version(_), ConnectResult::Version(_)) => "C18/version-not-verbatim",
                                _ => "C18/wrong-greeting-error",
                            };
                            acc.viol.push(Violation::new(
                                sig,
                                format!("{flavor:?} connect on {:?} cuts {:?}: got {r:?}, expected {want:?}", show_bytes(&s[..s.len().min(60)]), &cuts[..cuts.len().min(6)]),
                                json!({"kind": "greeting", "stream_hex": hex(s), "cuts": cuts, "flavor": format!("{flavor:?}")}),
                            ));
                        }
                        acc.outcomes.insert(hash64(&r));
                    }
                }
            }
            if acc.samples.is_empty() && g.len() == 10 {
                acc.samples.push(json!({"greeting": show_bytes(g), "reference": format!("{:?}", ref_greeting(g))}));
            }
            acc
        })
        .reduce(Acc::default, Acc::merge)
        .merge(probe)
}

// ---------------------------------------------------------------------------------------------
// replay

pub fn replay(id: &str, case: &Value) -> i32 {
    let stream = unhex(case["stream_hex"].as_str().unwrap_or(""));
    let cuts: Vec<usize> = case["cuts"].as_array().map(|a| a.iter().filter_map(|x| x.as_u64().map(|v| v as usize)).collect()).unwrap_or_default();
    let flavor = if case["flavor"].as_str() == Some("Async") { Flavor::Async } else { Flavor::Sync };
    let mask = case["pending_mask"].as_u64().unwrap_or(0);
    println!("replay {id}: {flavor:?}, {} bytes {:?}, cuts {:?}, pending mask {mask:#b}", stream.len(), show_bytes(&stream[..stream.len().min(300)]), cuts);
    if case["kind"].as_str() == Some("greeting") {
        let script = Script { stream: &stream, cuts: &cuts, end: EndAnswer::Eof, pending_mask: mask & 0x7fff_ffff, cancel_mask: (mask >> 32) & 0x7fff, cancel_twice_mask: mask >> 48, send_after_cancel: mask & SEND_AFTER_CANCEL != 0, via_command: mask & VIA_COMMAND != 0 };
        let (r, st) = run_connect(flavor, &script);
        let want = match ref_greeting(&stream) {
            RefGreeting::Version(v) => ConnectResult::Version(v),
            RefGreeting::Malformed => ConnectResult::End(Terminal::Invalid),
            RefGreeting::Early => ConnectResult::End(Terminal::UnexpectedEof),
        };
        println!("  connect -> {r:?} after {} reads; reference says {want:?}", st.reads.get());
        return if r == want { println!("replay: property holds on this case"); 0 } else { println!("replay: VIOLATION"); 1 };
    }
    let script = Script { stream: &stream, cuts: &cuts, end: EndAnswer::Eof, pending_mask: mask & 0x7fff_ffff, cancel_mask: (mask >> 32) & 0x7fff, cancel_twice_mask: mask >> 48, send_after_cancel: mask & SEND_AFTER_CANCEL != 0, via_command: mask & VIA_COMMAND != 0 };
    let (s, st) = run_session(flavor, &script, 64, id == "C09");
    println!("  session: {}", describe_session(&s));
    println!("  reads: {}", st.reads.get());
    let expect = if id == "C02" {
        let b = Script { stream: &stream, cuts: &[], end: EndAnswer::Eof, pending_mask: 0, cancel_mask: 0, cancel_twice_mask: 0, send_after_cancel: false, via_command: false };
        let (base, _) = run_session(Flavor::Sync, &b, 64, false);
        println!("  baseline (blocking, one read): {}", describe_session(&base));
        Expect { responses: base.responses, ends: vec![base.end], alt: None }
    } else {
        let mut e = c09_expect(&stream);
        if id != "C09" && e.ends.len() == 2 {
            e.ends = vec![Terminal::UnexpectedEof];
        }
        println!("  reference decoder: {} response(s), then one of {:?}", e.responses.len(), e.ends);
        e
    };
    if s.responses == expect.responses && expect.ends.contains(&s.end) {
        println!("replay: property holds on this case");
        0
    } else {
        println!("replay: VIOLATION");
        1
    }
}
