//! C11 — filter expressions mean on the server what was built on the client.
//!
//! All filter trees with <= 3 leaves built through the public API, all operators and the
//! exists/absent shorthands at every leaf, and at one leaf at a time every value string over a
//! class alphabet; rendered through find / count / list / count-group, decoded by the ports of
//! MPD's tokenizer (first unescaping layer) and filter grammar (second layer) and compared with a
//! mirror tree up to associativity of AND.

use mpd_client::{
    commands::{Command as _, Count, CountGrouped, Find, List},
    filter::{Filter, Operator},
    tag::Tag,
};
use rayon::prelude::*;
use serde_json::{json, Value};

use crate::{
    common::*,
    io::wire_of_command,
    mpdref::{
        filter::{parse, Expr},
        tokenizer::tokenize,
    },
};

/// the protocol's tag names
pub const ALL_TAG_NAMES: &[&str] = &[
    "Artist", "ArtistSort", "Album", "AlbumSort", "AlbumArtist", "AlbumArtistSort", "Title", "Track", "Name", "Genre", "Date", "OriginalDate", "Composer", "ComposerSort", "Performer", "Conductor", "Work", "Ensemble", "Movement",
    "MovementNumber", "Location", "Grouping", "Comment", "Disc", "Label", "MUSICBRAINZ_ARTISTID", "MUSICBRAINZ_ALBUMID", "MUSICBRAINZ_ALBUMARTISTID", "MUSICBRAINZ_TRACKID", "MUSICBRAINZ_RELEASETRACKID", "MUSICBRAINZ_WORKID",
];

pub const VALUE_SIGMA: &[&str] = &["a", " ", "\"", "'", "\\", "(", ")", "!", "=", "\u{e9}", "AND", "\t"];

#[derive(Clone, Debug, PartialEq, Eq)]
pub enum Shape {
    Leaf,
    Not(Box<Shape>),
    And(Box<Shape>, Box<Shape>),
}

impl Shape {
    fn leaves(&self) -> usize {
        match self {
            Shape::Leaf => 1,
            Shape::Not(s) => s.leaves(),
            Shape::And(a, b) => a.leaves() + b.leaves(),
        }
    }
    fn show(&self) -> String {
        match self {
            Shape::Leaf => "L".into(),
            Shape::Not(s) => format!("!{}", s.show()),
            Shape::And(a, b) => format!("({}&{})", a.show(), b.show()),
        }
    }
}

/// all shapes with at most `max_leaves` leaves and nesting depth at most `max_depth`
pub fn shapes(max_leaves: usize, max_depth: usize) -> Vec<Shape> {
    fn gen(depth: usize, max_leaves: usize) -> Vec<Shape> {
        let mut out = vec![Shape::Leaf];
        if depth == 0 {
            return out;
        }
        let sub = gen(depth - 1, max_leaves);
        for s in &sub {
            out.push(Shape::Not(Box::new(s.clone())));
        }
        for a in &sub {
            for b in &sub {
                if a.leaves() + b.leaves() <= max_leaves {
                    out.push(Shape::And(Box::new(a.clone()), Box::new(b.clone())));
                }
            }
        }
        out.dedup();
        out
    }
    let mut v = gen(max_depth, max_leaves);
    v.retain(|s| s.leaves() <= max_leaves);
    let mut seen = Vec::new();
    for s in v {
        if !seen.contains(&s) {
            seen.push(s);
        }
    }
    seen
}

#[derive(Clone, Debug, PartialEq, Eq)]
pub enum LeafKind {
    Op(usize),
    /// `Filter::tag` shorthand (equality)
    TagEq,
    Exists,
    Absent,
}

#[derive(Clone, Debug, PartialEq, Eq)]
pub struct LeafSpec {
    pub tag: usize,
    pub kind: LeafKind,
    pub value: String,
}

pub fn tags() -> Vec<Tag> {
    vec![Tag::Artist, Tag::Album, Tag::MusicBrainzArtistId, Tag::any(), Tag::try_from("myTag").unwrap()]
}

pub fn tag_names() -> Vec<&'static str> {
    vec!["Artist", "Album", "MUSICBRAINZ_ARTISTID", "any", "myTag"]
}

const OPS: [(Operator, &str); 5] = [(Operator::Equal, "=="), (Operator::NotEqual, "!="), (Operator::Contain, "contains"), (Operator::Match, "=~"), (Operator::NotMatch, "!~")];

fn build(shape: &Shape, leaves: &[LeafSpec], next: &mut usize, use_not_op: bool) -> (Filter, Expr) {
    match shape {
        Shape::Leaf => {
            let l = &leaves[*next];
            *next += 1;
            let tag = tags()[l.tag].clone();
            let name = tag_names()[l.tag].as_bytes().to_vec();
            match &l.kind {
                LeafKind::Op(o) => (Filter::new(tag, OPS[*o].0, l.value.clone()), Expr::Tag { tag: name, op: OPS[*o].1.to_string(), value: l.value.as_bytes().to_vec() }),
                LeafKind::TagEq => (Filter::tag(tag, l.value.as_str()), Expr::Tag { tag: name, op: "==".into(), value: l.value.as_bytes().to_vec() }),
                LeafKind::Exists => (Filter::tag_exists(tag), Expr::Tag { tag: name, op: "!=".into(), value: vec![] }),
                LeafKind::Absent => (Filter::tag_absent(tag), Expr::Tag { tag: name, op: "==".into(), value: vec![] }),
            }
        }
        Shape::Not(s) => {
            let (f, e) = build(s, leaves, next, use_not_op);
            (if use_not_op { !f } else { f.negate() }, Expr::Not(Box::new(e)))
        }
        Shape::And(a, b) => {
            let (fa, ea) = build(a, leaves, next, use_not_op);
            let (fb, eb) = build(b, leaves, next, use_not_op);
            (fa.and(fb), Expr::And(vec![ea, eb]))
        }
    }
}

#[derive(Default)]
struct Acc {
    evaluations: u64,
    nontrivial: u64,
    transitions: u64,
    viol: Violations,
}
impl Acc {
    fn merge(mut self, o: Acc) -> Acc {
        self.evaluations += o.evaluations;
        self.nontrivial += o.nontrivial;
        self.transitions += o.transitions;
        self.viol.merge(o.viol);
        self
    }
}

/// the filter argument MPD's tokenizer extracts from the request written for each command form
fn filter_args(filter: &Filter) -> Vec<(&'static str, Result<Vec<u8>, String>)> {
    let forms: Vec<(&'static str, mpd_client::protocol::Command, usize, usize)> = vec![
        ("find", Find::new(filter.clone()).command(), 0, 1),
        ("count", Count::new(filter.clone()).command(), 0, 1),
        ("list", List::new(Tag::Album).filter(filter.clone()).command(), 1, 2),
        ("count-group", CountGrouped::new(Tag::Album).filter(filter.clone()).command(), 0, 3),
        // (round 7) the other builder paths that carry a filter: every one must carry the same filter
        ("count.group_by", Count::new(filter.clone()).group_by(Tag::Album).command(), 0, 3),
        ("list.filter.group_by", List::new(Tag::Album).filter(filter.clone()).group_by([Tag::Artist]).command(), 1, 4),
        ("list.group_by.filter", List::new(Tag::Album).group_by([Tag::Artist, Tag::Date]).filter(filter.clone()).command(), 1, 6),
        ("find.sort.window", Find::new(filter.clone()).sort(Tag::Title).window(1..3).command(), 0, 5),
    ];
    forms
        .into_iter()
        .map(|(name, cmd, pos, nargs)| {
            let w = wire_of_command(cmd);
            let r = if w.last() != Some(&b'\n') || w.iter().filter(|&&b| b == b'\n').count() != 1 {
                Err(format!("request is not one line: {:?}", show_bytes(&w)))
            } else {
                match tokenize(&w[..w.len() - 1]) {
                    Err(e) => Err(format!("tokenizer rejects {:?}: {e}", show_bytes(&w))),
                    Ok(req) if req.args.len() != nargs => Err(format!("{} arguments instead of {nargs} in {:?}", req.args.len(), show_bytes(&w))),
                    Ok(req) => Ok(req.args[pos].clone()),
                }
            };
            (name, r)
        })
        .collect()
}

fn roundtrip(filter: &Filter, mirror: &Expr) -> Result<(), String> {
    for (form, arg) in filter_args(filter) {
        let arg = arg.map_err(|e| format!("[{form}] {e}"))?;
        let parsed = parse(&arg).map_err(|e| format!("[{form}] MPD's filter parser rejects {:?}: {e}", show_bytes(&arg)))?;
        if parsed.normalize() != mirror.normalize() {
            return Err(format!("[{form}] server reads {} from {:?}", parsed.normalize().show(), show_bytes(&arg)));
        }
    }
    Ok(())
}

fn and2_shape() -> Shape {
    Shape::And(Box::new(Shape::Leaf), Box::new(Shape::Leaf))
}

/// A value containing LF or NUL cannot be carried by a request line. Each command form may refuse (panic /
/// error while building) - then nothing is sent and nothing is claimed; whatever IS sent must still be one
/// line whose filter argument denotes the filter that was built.
fn check_unencodable(value: &str, acc: &mut Acc, verbose: bool) {
    type Form = (&'static str, Box<dyn Fn(Filter) -> mpd_client::protocol::Command>, usize, usize);
    let forms: Vec<Form> = vec![
        ("find", Box::new(|f| Find::new(f).command()), 0, 1),
        ("count", Box::new(|f| Count::new(f).command()), 0, 1),
        ("list", Box::new(|f| List::new(Tag::Album).filter(f).command()), 1, 2),
        ("count-group", Box::new(|f| CountGrouped::new(Tag::Album).filter(f).command()), 0, 3),
        ("count.group_by", Box::new(|f| Count::new(f).group_by(Tag::Album).command()), 0, 3),
        ("list.group_by.filter", Box::new(|f| List::new(Tag::Album).group_by([Tag::Artist]).filter(f).command()), 1, 4),
    ];
    for (leafname, filter, mirror) in [
        ("Filter::tag", Filter::tag(Tag::Artist, value), Expr::Tag { tag: b"Artist".to_vec(), op: "==".into(), value: value.as_bytes().to_vec() }),
        (
            "x AND Filter::new(contains)",
            Filter::tag(Tag::Album, "x").and(Filter::new(Tag::Artist, Operator::Contain, value)),
            Expr::And(vec![Expr::Tag { tag: b"Album".to_vec(), op: "==".into(), value: b"x".to_vec() }, Expr::Tag { tag: b"Artist".to_vec(), op: "contains".into(), value: value.as_bytes().to_vec() }]),
        ),
    ] {
        for (form, make, pos, nargs) in &forms {
            acc.evaluations += 1;
            acc.nontrivial += 1;
            acc.transitions += 1;
            let f = filter.clone();
            let w = match catch(|| wire_of_command(make(f))) {
                Err(_) => {
                    if verbose {
                        println!("  [{form}] {leafname}: refused (nothing is sent)");
                    }
                    continue;
                }
                Ok(w) => w,
            };
            let problem = if w.last() != Some(&b'\n') || w.iter().filter(|&&b| b == b'\n').count() != 1 {
                Some(format!("request is not one line: {:?}", show_bytes(&w)))
            } else {
                match tokenize(&w[..w.len() - 1]) {
                    Err(e) => Some(format!("tokenizer rejects {:?}: {e}", show_bytes(&w))),
                    Ok(req) if req.args.len() != *nargs => Some(format!("{} arguments instead of {nargs} in {:?} (the filter was left out or split)", req.args.len(), show_bytes(&w))),
                    Ok(req) => match parse(&req.args[*pos]) {
                        Err(e) => Some(format!("MPD's filter parser rejects {:?}: {e}", show_bytes(&req.args[*pos]))),
                        Ok(p) if p.normalize() != mirror.normalize() => Some(format!("server reads {} from {:?}", p.normalize().show(), show_bytes(&w))),
                        Ok(_) => None,
                    },
                }
            };
            if verbose {
                println!("  [{form}] {leafname}: sent {:?}: {:?}", show_bytes(&w), problem);
            }
            if let Some(why) = problem {
                acc.viol.push(Violation::new("C11/unencodable-value-sent-altered", format!("[{form}] {leafname} with the value {:?} (not representable in a request line): {why}", show_bytes(value.as_bytes())), json!({"unencodable_value_hex": hex(value.as_bytes())})));
            }
        }
    }
}

fn signature(shape: &Shape, leaves: &[LeafSpec]) -> String {
    let has_quote = leaves.iter().any(|l| l.value.contains('"'));
    let has_bs = leaves.iter().any(|l| l.value.contains('\\'));
    if has_quote {
        // tight: the same tree with every double quote replaced by an ordinary letter must be fine
        let sane: Vec<LeafSpec> = leaves.iter().map(|l| LeafSpec { value: l.value.replace('"', "q"), ..l.clone() }).collect();
        let mut n = 0;
        let (f, m) = build(shape, &sane, &mut n, false);
        if roundtrip(&f, &m).is_ok() {
            return "C11/value-with-double-quote".to_string();
        }
    }
    if has_bs {
        let sane: Vec<LeafSpec> = leaves.iter().map(|l| LeafSpec { value: l.value.replace('\\', "b").replace('"', "q"), ..l.clone() }).collect();
        let mut n = 0;
        let (f, m) = build(shape, &sane, &mut n, false);
        if roundtrip(&f, &m).is_ok() {
            return if has_quote { "C11/value-with-backslash-and-double-quote".to_string() } else { "C11/value-with-backslash".to_string() };
        }
    }
    "C11/mismatch".to_string()
}

fn case_json(shape: &Shape, leaves: &[LeafSpec]) -> Value {
    json!({
        "shape": shape.show(),
        "leaves": leaves.iter().map(|l| json!({"tag": l.tag, "kind": format!("{:?}", l.kind), "value_hex": hex(l.value.as_bytes()), "value": show_bytes(l.value.as_bytes())})).collect::<Vec<_>>(),
    })
}

fn check(shape: &Shape, leaves: &[LeafSpec], acc: &mut Acc, verbose: bool) {
    acc.evaluations += 1;
    if leaves.iter().any(|l| l.value.bytes().any(|b| !b.is_ascii_alphanumeric())) || shape.leaves() > 1 {
        acc.nontrivial += 1;
    }
    let mut n = 0;
    let (f1, mirror) = build(shape, leaves, &mut n, false);
    let mut n = 0;
    let (f2, _) = build(shape, leaves, &mut n, true);
    acc.transitions += 4;
    if f1 != f2 {
        acc.viol.push(Violation::new("C11/not-operator-differs", format!("`!f` and `f.negate()` differ for {}", shape.show()), case_json(shape, leaves)));
    }
    if verbose {
        for (form, a) in filter_args(&f1) {
            println!("  [{form}] filter argument after MPD's tokenizer: {:?}", a.map(|a| show_bytes(&a)));
        }
        println!("  mirror tree: {}", mirror.normalize().show());
    }
    if let Err(why) = roundtrip(&f1, &mirror) {
        if verbose {
            println!("  MISMATCH: {why}");
        }
        acc.viol.push(Violation::new(signature(shape, leaves), format!("filter {} built as {}: {why}", mirror.normalize().show(), shape.show()), case_json(shape, leaves)));
    }
}

fn parse_shape(s: &str) -> Option<Shape> {
    fn p(b: &[u8], i: &mut usize) -> Option<Shape> {
        match b.get(*i)? {
            b'L' => {
                *i += 1;
                Some(Shape::Leaf)
            }
            b'!' => {
                *i += 1;
                Some(Shape::Not(Box::new(p(b, i)?)))
            }
            b'(' => {
                *i += 1;
                let a = p(b, i)?;
                if b.get(*i)? != &b'&' {
                    return None;
                }
                *i += 1;
                let c = p(b, i)?;
                if b.get(*i)? != &b')' {
                    return None;
                }
                *i += 1;
                Some(Shape::And(Box::new(a), Box::new(c)))
            }
            _ => None,
        }
    }
    let mut i = 0;
    p(s.as_bytes(), &mut i)
}

pub fn run(tier: Tier) -> i32 {
    let mut ctx = Ctx::new("C11", tier, "model_checking");
    ctx.assume("MPD applies two unescaping layers: the request tokenizer (mpdref::tokenizer) and the filter grammar (mpdref::filter, port of SongFilter::ParseExpression/ExpectQuoted)");
    ctx.assume("special filter types (base, modified-since, AudioFormat, prio) are not expressible through this API and outside the domain; manually built Tag::Other with characters outside the tag alphabet likewise");
    let all_shapes = shapes(3, 3);
    let kinds: Vec<LeafKind> = (0..5).map(LeafKind::Op).chain([LeafKind::TagEq, LeafKind::Exists, LeafKind::Absent]).collect();
    let fixed = ["x", "y z", "w"];

    // (1) every shape x every assignment of leaf kinds, tags rotating
    let acc1 = all_shapes
        .par_iter()
        .map(|shape| {
            let mut acc = Acc::default();
            let n = shape.leaves();
            let total = kinds.len().pow(n as u32);
            for code in 0..total {
                let mut c = code;
                let mut leaves = Vec::new();
                for i in 0..n {
                    let k = kinds[c % kinds.len()].clone();
                    c /= kinds.len();
                    leaves.push(LeafSpec { tag: (i + code) % 5, kind: k, value: fixed[i].to_string() });
                }
                check(shape, &leaves, &mut acc, false);
            }
            acc
        })
        .reduce(Acc::default, Acc::merge);

    // (2) single leaf: every tag x every kind
    let mut acc2 = Acc::default();
    for t in 0..5 {
        for k in &kinds {
            for v in ["", "x", "a b"] {
                check(&Shape::Leaf, &[LeafSpec { tag: t, kind: k.clone(), value: v.to_string() }], &mut acc2, false);
            }
        }
    }

    // (3) at one leaf at a time, every value over the class alphabet
    let values = strings_over(VALUE_SIGMA, tier.pick(4, 5));
    let work: Vec<(usize, usize)> = all_shapes.iter().enumerate().flat_map(|(si, s)| (0..s.leaves()).map(move |p| (si, p))).collect();
    let acc3 = work
        .par_iter()
        .map(|&(si, p)| {
            let mut acc = Acc::default();
            let shape = &all_shapes[si];
            let n = shape.leaves();
            for (vi, v) in values.iter().enumerate() {
                let leaves: Vec<LeafSpec> = (0..n)
                    .map(|i| LeafSpec { tag: (i + si) % 5, kind: if i == p { LeafKind::Op(vi % 5) } else { LeafKind::Op((i + vi) % 5) }, value: if i == p { v.clone() } else { fixed[i].to_string() } })
                    .collect();
                check(shape, &leaves, &mut acc, false);
            }
            acc
        })
        .reduce(Acc::default, Acc::merge);

    // (3b) on a single leaf every value under every operator AND through Filter::tag (round 6: a convenience
    // constructor that "normalises" its value)
    let acc3b = values
        .par_chunks(512)
        .map(|chunk| {
            let mut acc = Acc::default();
            for v in chunk {
                for k in (0..5).map(LeafKind::Op).chain([LeafKind::TagEq]) {
                    check(&Shape::Leaf, &[LeafSpec { tag: 1, kind: k, value: v.clone() }], &mut acc, false);
                }
            }
            acc
        })
        .reduce(Acc::default, Acc::merge);
    // (3c) long values: every length 40..=70, around 128 / 256 / 512 / 1024 and 2000, with 0..=3 backslashes
    // or single quotes spread over the value (round 6: an inline buffer sized for the wrong growth factor)
    let lens: Vec<usize> = (40..=70).chain(120..=136).chain(250..=260).chain([510, 511, 512, 513, 1000, 1023, 1024, 1025, 2000]).collect(); // (MPD's filter parser holds a quoted value in a 4 KiB buffer: longer values are outside the domain)
    let acc3c = lens
        .par_iter()
        .map(|&len| {
            let mut acc = Acc::default();
            for special in ["\\", "'", " ", "\u{e9}"] {
                for k in 0..=3usize {
                    let mut v: Vec<&str> = vec!["a"; len - k * special.len().min(len / 4)];
                    for j in 0..k {
                        // first, middle, last
                        let at = [0, v.len() / 2, v.len()][j];
                        v.insert(at, special);
                    }
                    let value: String = v.concat();
                    for kind in [LeafKind::Op(0), LeafKind::Op(2), LeafKind::TagEq] {
                        check(&Shape::Leaf, &[LeafSpec { tag: 0, kind, value: value.clone() }], &mut acc, false);
                    }
                    check(&and2_shape(), &[LeafSpec { tag: 0, kind: LeafKind::Op(0), value: value.clone() }, LeafSpec { tag: 1, kind: LeafKind::TagEq, value: value.clone() }], &mut acc, false);
                }
            }
            acc
        })
        .reduce(Acc::default, Acc::merge);
    // (3d) values no request line can carry (LF, NUL): refusing to build the request is fine, sending a
    // request that means something else (e.g. without the filter) is not
    let mut acc3d = Acc::default();
    for v in strings_over(&["a", "\n", "\0", " "], 3).into_iter().filter(|v| v.contains('\n') || v.contains('\0')) {
        check_unencodable(&v, &mut acc3d, false);
    }
    let acc3 = acc3.merge(acc3b).merge(acc3c).merge(acc3d);

    // (4) two special values at once (all pairs of short values) on the two-leaf AND
    let short = strings_over(VALUE_SIGMA, 1);
    let and2 = Shape::And(Box::new(Shape::Leaf), Box::new(Shape::Leaf));
    let mut acc4 = Acc::default();
    for a in &short {
        for b in &short {
            check(&and2, &[LeafSpec { tag: 0, kind: LeafKind::Op(0), value: a.clone() }, LeafSpec { tag: 1, kind: LeafKind::Op(2), value: b.clone() }], &mut acc4, false);
        }
    }

    // (5) every tag of the protocol (named variant and what Tag::try_from makes of its name) on a leaf
    let mut acc5 = Acc::default();
    for name in ALL_TAG_NAMES {
        for tag in [Tag::try_from(*name).unwrap_or_else(|_| machinery_error("C11: tag name table")), Tag::try_from(name.to_lowercase().as_str()).unwrap()] {
            for (op, ops) in OPS {
                acc5.evaluations += 1;
                acc5.nontrivial += 1;
                acc5.transitions += 4;
                let f = Filter::new(tag.clone(), op, "v w");
                let mirror = Expr::Tag { tag: name.as_bytes().to_vec(), op: ops.to_string(), value: b"v w".to_vec() };
                if let Err(why) = roundtrip(&f, &mirror) {
                    acc5.viol.push(Violation::new("C11/tag-name", format!("filter on tag {name}: {why}"), json!({"tag_name": name})));
                }
            }
        }
    }
    // (7) characters a text formatter might rewrite (control characters, combining marks, format
    // characters, private use, separators): every one of them at the start, inside and at the end
    // of a value, under every operator
    let mut specials: Vec<char> = (1u32..0x20).filter(|c| *c != 0x0a).filter_map(char::from_u32).collect();
    specials.extend(['\u{7f}', '\u{80}', '\u{85}', '\u{9f}', '\u{a0}', '\u{ad}', '\u{301}', '\u{200b}', '\u{200d}', '\u{2028}', '\u{2029}', '\u{feff}', '\u{fe0f}', '\u{e000}', '\u{fffd}', '\u{10ffff}', '\u{1f600}', '\u{3000}']);
    let acc7 = specials
        .par_iter()
        .map(|ch| {
            let mut acc = Acc::default();
            for v in [format!("{ch}x"), format!("a{ch}b"), format!("x{ch}"), ch.to_string()] {
                for (op, ops) in OPS {
                    acc.evaluations += 1;
                    acc.nontrivial += 1;
                    acc.transitions += 4;
                    let f = Filter::new(Tag::Title, op, v.as_str());
                    let mirror = Expr::Tag { tag: b"Title".to_vec(), op: ops.to_string(), value: v.as_bytes().to_vec() };
                    if let Err(why) = roundtrip(&f, &mirror) {
                        acc.viol.push(Violation::new("C11/special-character", format!("value {:?}: {why}", show_bytes(v.as_bytes())), json!({"special_value_hex": hex(v.as_bytes())})));
                    }
                }
            }
            acc
        })
        .reduce(Acc::default, Acc::merge);
    // (6) histories: a filter that has already been rendered (used as an argument) and is then
    // negated / extended / cloned must render like a freshly built one
    let mut acc6 = Acc::default();
    {
        use mpd_client::protocol::command::Command as RawCommand;
        let leaf = |v: &str| (Filter::tag(Tag::Artist, v), Expr::Tag { tag: b"Artist".to_vec(), op: "==".into(), value: v.as_bytes().to_vec() });
        let render_once = |f: &Filter| {
            let _ = wire_of_command(RawCommand::new("find").argument(f));
            let _ = wire_of_command(Find::new(f.clone()).command());
        };
        for v in ["x", "a b", "it's"] {
            let steps: Vec<(&str, Box<dyn Fn(Filter, Expr) -> (Filter, Expr)>)> = vec![
                ("negate", Box::new(|f: Filter, e: Expr| (f.negate(), Expr::Not(Box::new(e))))),
                ("not-op", Box::new(|f: Filter, e: Expr| (!f, Expr::Not(Box::new(e))))),
                ("and-right", Box::new(|f: Filter, e: Expr| (f.and(Filter::tag(Tag::Album, "y")), Expr::And(vec![e, Expr::Tag { tag: b"Album".to_vec(), op: "==".into(), value: b"y".to_vec() }])))),
                ("and-left", Box::new(|f: Filter, e: Expr| (Filter::tag(Tag::Album, "y").and(f), Expr::And(vec![Expr::Tag { tag: b"Album".to_vec(), op: "==".into(), value: b"y".to_vec() }, e])))),
                ("clone", Box::new(|f: Filter, e: Expr| (f.clone(), e))),
            ];
            // every sequence of <= 3 steps, rendering after each step (and once before any)
            let n = steps.len();
            for depth in 1..=3usize {
                for code in 0..n.pow(depth as u32) {
                    let (mut f, mut e) = leaf(v);
                    render_once(&f);
                    let mut c = code;
                    let mut names = Vec::new();
                    for _ in 0..depth {
                        let (nm, step) = &steps[c % n];
                        c /= n;
                        names.push(*nm);
                        let (f2, e2) = step(f, e);
                        f = f2;
                        e = e2;
                        acc6.evaluations += 1;
                        acc6.nontrivial += 1;
                        acc6.transitions += 4;
                        if let Err(why) = roundtrip(&f, &e) {
                            acc6.viol.push(Violation::new("C11/history-dependent-rendering", format!("filter <{v}> rendered, then {names:?}: {why}"), json!({"history": names, "value": v})));
                            break;
                        }
                        render_once(&f);
                    }
                }
            }
        }
    }
    let acc = acc1.merge(acc2).merge(acc3).merge(acc4).merge(acc5).merge(acc6).merge(acc7);
    let mut cov = Coverage::default();
    cov.evaluations = acc.evaluations;
    cov.distinct_nontrivial = acc.nontrivial;
    cov.rule = format!(
        "{} tree shapes (<=3 leaves, nesting <=3, NOT via negate() and via `!`, AND in both association orders) x every assignment of the 8 leaf kinds (5 operators, Filter::tag, tag_exists, tag_absent) with rotating tags; every tag x kind on a single leaf; at one leaf at a time every value of length <= {} over {:?} ({} values), on a single leaf under every operator and through Filter::tag; values of every length 40..=70, 120..=136, 250..=260 and around 512 / 1024 / 2000 with 0..=3 backslashes / quotes / blanks / non-ASCII characters; values with LF / NUL (refused, or sent unaltered); all pairs of single-symbol values on a two-leaf AND; every tag name of the protocol x every operator; 48 control / combining / format / separator / private-use characters at the start, inside and at the end of a value x every operator; every sequence of <= 3 negate / ! / and / clone steps applied to a filter that has already been rendered, rendering after each step; each rendered through find (plain and with sort / window), count, count…group_by, list…filter (with group_by before and after) and count…group; non-trivial = trees with several leaves or a value containing a non-alphanumeric byte",
        all_shapes.len(),
        tier.pick(4, 5),
        VALUE_SIGMA,
        values.len()
    );
    cov.states = acc.evaluations;
    cov.transitions = acc.transitions;
    cov.traces = acc.evaluations;
    cov.exhaustive = true;
    cov.set("shapes", json!(all_shapes.iter().map(|s| s.show()).collect::<Vec<_>>()));
    cov.set("state_meaning", json!("states = distinct (shape, leaf assignment) filter trees; transitions = requests rendered by the real code and decoded through both reference layers"));
    {
        let f = Filter::tag(Tag::Artist, "a b").and(!Filter::new(Tag::Album, Operator::Contain, "x'y"));
        let w = wire_of_command(Find::new(f).command());
        cov.samples.push(json!({"tree": "((Artist == <a b>) AND (!(Album contains <x'y>)))", "wire": show_bytes(&w)}));
    }
    finish(&ctx, cov, acc.viol)
}

pub fn replay(case: &Value) -> i32 {
    if let Some(h) = case.get("unencodable_value_hex").and_then(|v| v.as_str()) {
        let v = String::from_utf8_lossy(&unhex(h)).into_owned();
        println!("replay C11: value {:?} that no request line can carry", show_bytes(v.as_bytes()));
        let mut acc = Acc::default();
        check_unencodable(&v, &mut acc, true);
        return if acc.viol.is_empty() { println!("replay: property holds on this case"); 0 } else { println!("replay: VIOLATION"); 1 };
    }
    if let Some(h) = case.get("special_value_hex").and_then(|v| v.as_str()) {
        let v = String::from_utf8_lossy(&unhex(h)).into_owned();
        println!("replay C11: value {:?} under every operator", show_bytes(v.as_bytes()));
        let mut bad = 0;
        for (op, ops) in OPS {
            let f = Filter::new(Tag::Title, op, v.as_str());
            let mirror = Expr::Tag { tag: b"Title".to_vec(), op: ops.to_string(), value: v.as_bytes().to_vec() };
            if let Err(why) = roundtrip(&f, &mirror) {
                println!("replay: VIOLATION {ops}: {why}");
                bad += 1;
            }
        }
        if bad == 0 {
            println!("replay: property holds on this case");
        }
        return if bad == 0 { 0 } else { 1 };
    }
    if case.get("tag_name").is_some() || case.get("history").is_some() {
        println!("replay C11: re-running the whole check for this kind of case ({case})");
        return run(Tier::Quick);
    }
    let Some(shape) = case["shape"].as_str().and_then(parse_shape) else { return 2 };
    let leaves: Vec<LeafSpec> = case["leaves"]
        .as_array()
        .map(|a| {
            a.iter()
                .map(|l| {
                    let kind_s = l["kind"].as_str().unwrap_or("");
                    let kind = if let Some(n) = kind_s.strip_prefix("Op(").and_then(|s| s.strip_suffix(')')).and_then(|s| s.parse::<usize>().ok()) {
                        LeafKind::Op(n.min(4))
                    } else {
                        match kind_s {
                            "TagEq" => LeafKind::TagEq,
                            "Exists" => LeafKind::Exists,
                            _ => LeafKind::Absent,
                        }
                    };
                    LeafSpec { tag: (l["tag"].as_u64().unwrap_or(0) as usize).min(4), kind, value: String::from_utf8_lossy(&unhex(l["value_hex"].as_str().unwrap_or(""))).into_owned() }
                })
                .collect()
        })
        .unwrap_or_default();
    if leaves.len() != shape.leaves() {
        return 2;
    }
    println!("replay C11: shape {} leaves {:?}", shape.show(), leaves);
    let mut acc = Acc::default();
    check(&shape, &leaves, &mut acc, true);
    if acc.viol.is_empty() {
        println!("replay: property holds on this case");
        0
    } else {
        for (sig, (_, ex)) in &acc.viol.by_sig {
            println!("replay: VIOLATION sig={sig}: {}", ex[0].what);
        }
        1
    }
}
