//! Shared plumbing: tiers, violation bookkeeping, known findings, evidence files, panic capture.

use std::{
    cell::RefCell,
    collections::{BTreeMap, BTreeSet},
    fs,
    hash::{Hash, Hasher},
    panic::{self, AssertUnwindSafe},
    path::{Path, PathBuf},
    sync::Once,
    time::Instant,
};

use serde_json::{json, Value};

/// Root of the verification tree. `/verif` unless `VERIF_LANE_ROOT` says otherwise (used only by
/// `tools/lane.sh`, which runs regression lanes on copies of /repo and the harness in parallel).
pub fn verif_root() -> PathBuf {
    PathBuf::from(std::env::var("VERIF_LANE_ROOT").unwrap_or_else(|_| "/verif".to_string()))
}

#[derive(Clone, Copy, Debug, PartialEq, Eq)]
pub enum Tier {
    Quick,
    Thorough,
}

impl Tier {
    pub fn as_str(self) -> &'static str {
        match self {
            Tier::Quick => "quick",
            Tier::Thorough => "thorough",
        }
    }
    pub fn pick<T>(self, quick: T, thorough: T) -> T {
        match self {
            Tier::Quick => quick,
            Tier::Thorough => thorough,
        }
    }
}

/// One property violation found on one concrete case.
#[derive(Clone, Debug)]
pub struct Violation {
    /// Deterministic classification of the failing case (not of the property).
    pub sig: String,
    /// Human-readable one-liner.
    pub what: String,
    /// Everything needed to re-execute exactly this case (`check <ID> --replay <file>`).
    pub case: Value,
}

impl Violation {
    pub fn new(sig: impl Into<String>, what: impl Into<String>, case: Value) -> Self {
        Violation {
            sig: sig.into(),
            what: what.into(),
            case,
        }
    }
}

/// Bounded collector: keeps a few examples per signature and counts the rest.
#[derive(Default, Debug)]
pub struct Violations {
    pub by_sig: BTreeMap<String, (u64, Vec<Violation>)>,
}

pub const KEEP_PER_SIG: usize = 3;

impl Violations {
    pub fn push(&mut self, v: Violation) {
        let e = self.by_sig.entry(v.sig.clone()).or_insert((0, Vec::new()));
        e.0 += 1;
        if e.1.len() < KEEP_PER_SIG {
            e.1.push(v);
        }
    }
    pub fn extend(&mut self, vs: impl IntoIterator<Item = Violation>) {
        for v in vs {
            self.push(v);
        }
    }
    pub fn merge(&mut self, other: Violations) {
        for (sig, (n, ex)) in other.by_sig {
            let e = self.by_sig.entry(sig).or_insert((0, Vec::new()));
            e.0 += n;
            for v in ex {
                if e.1.len() < KEEP_PER_SIG {
                    e.1.push(v);
                }
            }
        }
    }
    pub fn total(&self) -> u64 {
        self.by_sig.values().map(|v| v.0).sum()
    }
    pub fn is_empty(&self) -> bool {
        self.by_sig.is_empty()
    }
}

/// Coverage numbers every check reports (see EVIDENCE.schema.json).
#[derive(Default, Debug, Clone)]
pub struct Coverage {
    /// cases generated / executions run
    pub evaluations: u64,
    /// distinct cases that are non-trivial by `rule`
    pub distinct_nontrivial: u64,
    pub rule: String,
    /// distinct states visited (meaning stated in `state_meaning`)
    pub states: u64,
    /// transitions executed (events, reads, operations)
    pub transitions: u64,
    /// executions of the real implementation (every trace is one)
    pub traces: u64,
    pub samples: Vec<Value>,
    pub exhaustive: bool,
    /// bounds that were completed, caps that were hit, per-scenario numbers, ...
    pub extra: BTreeMap<String, Value>,
}

impl Coverage {
    pub fn set(&mut self, k: &str, v: Value) {
        self.extra.insert(k.to_string(), v);
    }
}

pub struct Ctx {
    pub id: &'static str,
    pub tier: Tier,
    pub seed: u64,
    pub start: Instant,
    pub level: &'static str,
    pub assumptions: Vec<String>,
}

impl Ctx {
    pub fn new(id: &'static str, tier: Tier, level: &'static str) -> Ctx {
        let seed = std::env::var("VERIF_SEED")
            .ok()
            .and_then(|s| s.parse::<u64>().ok())
            .unwrap_or(0);
        Ctx {
            id,
            tier,
            seed,
            start: Instant::now(),
            level,
            assumptions: Vec::new(),
        }
    }
    pub fn assume(&mut self, s: &str) {
        self.assumptions.push(s.to_string());
    }
    pub fn elapsed(&self) -> f64 {
        self.start.elapsed().as_secs_f64()
    }
}

#[derive(Debug, Clone)]
pub struct FindingEntry {
    pub known: bool,
    pub property: String,
    pub sig: String,
    pub text: String,
}

pub fn load_findings() -> Vec<FindingEntry> {
    let path = verif_root().join("KNOWN_FINDINGS.txt");
    let Ok(text) = fs::read_to_string(&path) else {
        return Vec::new();
    };
    let mut out = Vec::new();
    for line in text.lines() {
        let line = line.trim();
        if line.is_empty() || line.starts_with('#') {
            continue;
        }
        let (known, rest) = if let Some(r) = line.strip_prefix("known:") {
            (true, r.trim())
        } else if let Some(r) = line.strip_prefix("fixed:") {
            (false, r.trim())
        } else {
            continue;
        };
        let mut property = String::new();
        let mut sig = String::new();
        for tok in rest.split_whitespace() {
            if let Some(p) = tok.strip_prefix("property=") {
                property = p.to_string();
            } else if let Some(s) = tok.strip_prefix("sig=") {
                sig = s.to_string();
            }
        }
        out.push(FindingEntry {
            known,
            property,
            sig,
            text: rest.to_string(),
        });
    }
    out
}

fn sanitize(s: &str) -> String {
    s.chars()
        .map(|c| if c.is_ascii_alphanumeric() || c == '-' || c == '_' { c } else { '_' })
        .collect()
}

/// A subscriber that is interested in everything and keeps nothing: with it installed every `trace!` /
/// `debug!` call site of the library evaluates its arguments (round 7: a log preview that slices a value at a
/// byte offset). Installed process-wide when VERIF_TRACE is set (the "logging on" pass of C09).
struct AllOn;
impl tracing::Subscriber for AllOn {
    fn enabled(&self, _: &tracing::Metadata<'_>) -> bool {
        true
    }
    fn new_span(&self, _: &tracing::span::Attributes<'_>) -> tracing::span::Id {
        tracing::span::Id::from_u64(1)
    }
    fn record(&self, _: &tracing::span::Id, _: &tracing::span::Record<'_>) {}
    fn record_follows_from(&self, _: &tracing::span::Id, _: &tracing::span::Id) {}
    fn event(&self, event: &tracing::Event<'_>) {
        // format every field, as a real subscriber would
        struct V(usize);
        impl tracing::field::Visit for V {
            fn record_debug(&mut self, _: &tracing::field::Field, value: &dyn std::fmt::Debug) {
                self.0 += format!("{value:?}").len();
            }
        }
        let mut v = V(0);
        event.record(&mut v);
        std::hint::black_box(v.0);
    }
    fn enter(&self, _: &tracing::span::Id) {}
    fn exit(&self, _: &tracing::span::Id) {}
}

pub fn all_tracing_on_if_asked() {
    if std::env::var_os("VERIF_TRACE").is_some() {
        tracing::subscriber::set_global_default(AllOn).unwrap_or_else(|_| machinery_error("a tracing subscriber is already installed"));
    }
}

/// The same enumeration once more in a child process with logging switched on (VERIF_TRACE); violations merged.
pub fn logging_on_pass(ctx: &Ctx, cov: &mut Coverage, violations: &mut Violations) {
    if std::env::var_os("VERIF_CHILD_PASS").is_some() || std::env::var_os("VERIF_TRACE").is_some() {
        return;
    }
    let exe = std::env::current_exe().unwrap_or_else(|e| machinery_error(&format!("current_exe: {e}")));
    let out = std::process::Command::new(&exe).arg(ctx.id).arg(ctx.tier.as_str()).env("VERIF_CHILD_PASS", "1").env("VERIF_TRACE", "1").output();
    let out = match out {
        Ok(o) if o.status.success() => o,
        other => machinery_error(&format!("{}: the logging-on pass did not run: {:?}", ctx.id, other.map(|o| (o.status, String::from_utf8_lossy(&o.stderr).chars().take(400).collect::<String>())))),
    };
    let text = String::from_utf8_lossy(&out.stdout);
    let line = text.lines().rev().find(|l| l.starts_with("{\"child_pass\"")).unwrap_or("{}");
    let v: Value = serde_json::from_str(line).unwrap_or_else(|e| machinery_error(&format!("{}: the logging-on pass printed no JSON: {e}", ctx.id)));
    let evals = v["evaluations"].as_u64().unwrap_or(0);
    if evals == 0 {
        machinery_error(&format!("{}: the logging-on pass evaluated nothing", ctx.id));
    }
    cov.evaluations += evals;
    cov.transitions += v["transitions"].as_u64().unwrap_or(0);
    cov.set("logging_on_pass", json!({"evaluations": evals, "violations": v["violations"].as_array().map(|a| a.len()).unwrap_or(0)}));
    for x in v["violations"].as_array().cloned().unwrap_or_default() {
        let n = x["count"].as_u64().unwrap_or(1);
        let viol = Violation::new(x["sig"].as_str().unwrap_or("panic"), format!("[with a tracing subscriber at TRACE level; replay with VERIF_TRACE=1] {}", x["what"].as_str().unwrap_or("")), x["case"].clone());
        let e = violations.by_sig.entry(viol.sig.clone()).or_insert((0, Vec::new()));
        e.0 += n;
        if e.1.len() < KEEP_PER_SIG {
            e.1.push(viol);
        }
    }
}

/// The same check once more in the build with the `chrono` feature (the typed layer's timestamps are a different
/// type there): `/verif/check` builds that binary for the checks that ask for it and names it in
/// VERIF_CHRONO_BIN. The child runs the whole enumeration with VERIF_CHILD_PASS set, writes no evidence and
/// prints one JSON line; its violations are merged into the parent's (their cases carry `"feature": "chrono"`,
/// which makes `--replay` pick the chrono binary).
pub fn second_build_pass(ctx: &Ctx, cov: &mut Coverage, violations: &mut Violations) {
    if cfg!(feature = "chrono") || std::env::var_os("VERIF_CHILD_PASS").is_some() {
        return;
    }
    let Ok(bin) = std::env::var("VERIF_CHRONO_BIN") else {
        cov.set("chrono_build", json!("not run (VERIF_CHRONO_BIN not set; /verif/check sets it)"));
        return;
    };
    let out = std::process::Command::new(&bin).arg(ctx.id).arg(ctx.tier.as_str()).env("VERIF_CHILD_PASS", "1").output();
    let out = match out {
        Ok(o) if o.status.success() => o,
        other => machinery_error(&format!("{}: the chrono build {bin} did not run: {:?}", ctx.id, other.map(|o| (o.status, String::from_utf8_lossy(&o.stderr).chars().take(400).collect::<String>())))),
    };
    let text = String::from_utf8_lossy(&out.stdout);
    let line = text.lines().rev().find(|l| l.starts_with("{\"child_pass\"")).unwrap_or("{}");
    let v: Value = serde_json::from_str(line).unwrap_or_else(|e| machinery_error(&format!("{}: the chrono pass printed no JSON: {e}", ctx.id)));
    if v["feature"].as_str() != Some("chrono") {
        machinery_error(&format!("{}: VERIF_CHRONO_BIN is not a chrono build", ctx.id));
    }
    let evals = v["evaluations"].as_u64().unwrap_or(0);
    if evals == 0 {
        machinery_error(&format!("{}: the chrono pass evaluated nothing", ctx.id));
    }
    cov.evaluations += evals;
    cov.transitions += v["transitions"].as_u64().unwrap_or(0);
    cov.set("chrono_build", json!({"evaluations": evals, "violations": v["violations"].as_array().map(|a| a.len()).unwrap_or(0)}));
    for x in v["violations"].as_array().cloned().unwrap_or_default() {
        let n = x["count"].as_u64().unwrap_or(1);
        let mut case = x["case"].clone();
        if let Some(o) = case.as_object_mut() {
            o.insert("feature".into(), json!("chrono"));
        } else {
            case = json!({"feature": "chrono", "case": case});
        }
        let viol = Violation::new(x["sig"].as_str().unwrap_or("panic"), format!("[chrono build] {}", x["what"].as_str().unwrap_or("")), case);
        let e = violations.by_sig.entry(viol.sig.clone()).or_insert((0, Vec::new()));
        e.0 += n;
        if e.1.len() < KEEP_PER_SIG {
            e.1.push(viol);
        }
    }
}

/// Writes replay files + evidence, prints the verdict lines, returns the process exit code.
pub fn finish(ctx: &Ctx, cov: Coverage, violations: Violations) -> i32 {
    if std::env::var_os("VERIF_CHILD_PASS").is_some() {
        let list: Vec<Value> = violations.by_sig.iter().map(|(sig, (n, ex))| json!({"sig": sig, "count": n, "what": ex.first().map(|v| v.what.clone()).unwrap_or_default(), "case": ex.first().map(|v| v.case.clone()).unwrap_or(Value::Null)})).collect();
        println!("{}", json!({"child_pass": true, "feature": if cfg!(feature = "chrono") { "chrono" } else { "default" }, "evaluations": cov.evaluations, "transitions": cov.transitions, "violations": list}));
        return 0;
    }
    let findings = load_findings();
    let known: BTreeMap<&str, &FindingEntry> = findings
        .iter()
        .filter(|f| f.known && f.property == ctx.id)
        .map(|f| (f.sig.as_str(), f))
        .collect();

    let replay_dir = verif_root().join("replays").join(ctx.id);
    let mut new_violations = 0u64;
    let mut known_hit: Vec<Value> = Vec::new();
    let mut violation_list: Vec<Value> = Vec::new();
    let mut hit_sigs = BTreeSet::new();

    for (sig, (count, examples)) in &violations.by_sig {
        if let Some(entry) = known.get(sig.as_str()) {
            hit_sigs.insert(sig.clone());
            let ex = examples.first().map(|v| v.what.clone()).unwrap_or_default();
            println!(
                "KNOWN-FINDING: property={} sig={} cases={} e.g. {}",
                ctx.id, sig, count, ex
            );
            known_hit.push(json!({"sig": sig, "cases": count, "example": ex, "entry": entry.text}));
            continue;
        }
        new_violations += count;
        let _ = fs::create_dir_all(&replay_dir);
        let mut first_path = None;
        for (i, v) in examples.iter().enumerate() {
            let path = replay_dir.join(format!("{}-{}.json", sanitize(sig), i));
            let body = json!({
                "property": ctx.id,
                "sig": sig,
                "what": v.what,
                "case": v.case,
            });
            let _ = fs::write(&path, serde_json::to_string_pretty(&body).unwrap());
            if first_path.is_none() {
                first_path = Some(path);
            }
        }
        let path = first_path.unwrap();
        println!(
            "VIOLATION property={} replay={} sig={} cases={} :: {}",
            ctx.id,
            path.display(),
            sig,
            count,
            examples[0].what
        );
        violation_list.push(json!({"sig": sig, "cases": count, "example": examples[0].what, "replay": path}));
    }
    for (sig, entry) in &known {
        if !hit_sigs.contains(*sig) {
            println!(
                "note: listed finding not reproduced by this run: property={} sig={} ({})",
                ctx.id, sig, entry.text
            );
        }
    }

    let wall = ctx.elapsed();
    let mut coverage = serde_json::Map::new();
    coverage.insert("evaluations".into(), json!(cov.evaluations));
    coverage.insert("distinct_nontrivial".into(), json!(cov.distinct_nontrivial));
    coverage.insert("rule".into(), json!(cov.rule));
    coverage.insert("states".into(), json!(cov.states.max(1)));
    coverage.insert("transitions".into(), json!(cov.transitions.max(1)));
    coverage.insert("traces_validated_against_impl".into(), json!(cov.traces));
    coverage.insert(
        "samples".into(),
        Value::Array(if cov.samples.is_empty() {
            vec![json!("(no sample recorded)")]
        } else {
            cov.samples.clone()
        }),
    );
    coverage.insert("exhaustive".into(), json!(cov.exhaustive));
    for (k, v) in &cov.extra {
        coverage.insert(k.clone(), v.clone());
    }
    coverage.insert("known_findings_hit".into(), Value::Array(known_hit));
    coverage.insert("violation_list".into(), Value::Array(violation_list));

    let evidence = json!({
        "property_id": ctx.id,
        "tier": ctx.tier.as_str(),
        "seed": ctx.seed,
        "level": ctx.level,
        "coverage": Value::Object(coverage),
        "assumptions": ctx.assumptions,
        "wall_s": wall,
        "violations": new_violations,
    });
    let ev_dir = verif_root().join("evidence");
    let _ = fs::create_dir_all(&ev_dir);
    let ev_path = ev_dir.join(format!("{}.json", ctx.id));
    if let Err(e) = fs::write(&ev_path, serde_json::to_string_pretty(&evidence).unwrap()) {
        eprintln!("machinery error: cannot write evidence {}: {e}", ev_path.display());
        return 2;
    }

    println!(
        "{} {}: evaluations={} distinct_nontrivial={} states={} transitions={} violations={} known_sigs_hit={} wall={:.1}s",
        ctx.id,
        ctx.tier.as_str(),
        cov.evaluations,
        cov.distinct_nontrivial,
        cov.states,
        cov.transitions,
        new_violations,
        hit_sigs.len(),
        wall
    );
    if new_violations > 0 {
        1
    } else {
        0
    }
}

/// Exit as machinery error (never a verdict).
pub fn machinery_error(msg: &str) -> ! {
    eprintln!("MACHINERY-ERROR: {msg}");
    std::process::exit(2);
}

// ---------------------------------------------------------------------------------------------
// Panic capture

thread_local! {
    static CAPTURE: RefCell<Option<String>> = const { RefCell::new(None) };
    static CAPTURING: RefCell<bool> = const { RefCell::new(false) };
}

static HOOK: Once = Once::new();

pub fn install_panic_hook() {
    HOOK.call_once(|| {
        let default = panic::take_hook();
        panic::set_hook(Box::new(move |info| {
            let capturing = CAPTURING.with(|c| *c.borrow());
            if capturing {
                let msg = if let Some(s) = info.payload().downcast_ref::<&str>() {
                    s.to_string()
                } else if let Some(s) = info.payload().downcast_ref::<String>() {
                    s.clone()
                } else {
                    "<non-string panic>".to_string()
                };
                let loc = info
                    .location()
                    .map(|l| format!("{}:{}", l.file(), l.line()))
                    .unwrap_or_default();
                CAPTURE.with(|c| *c.borrow_mut() = Some(format!("{msg} @ {loc}")));
            } else {
                // panics outside `catch` (e.g. inside a task of the client under a changed tree) are
                // shown, but only the first few: an exploration can hit the same one a million times
                static SHOWN: std::sync::atomic::AtomicU32 = std::sync::atomic::AtomicU32::new(0);
                let n = SHOWN.fetch_add(1, std::sync::atomic::Ordering::Relaxed);
                if n < 10 {
                    default(info);
                } else if n == 10 {
                    eprintln!("(further panic messages suppressed)");
                }
            }
        }));
    });
}

/// Run `f`, turning a panic into `Err(message @ location)` without printing anything.
pub fn catch<R>(f: impl FnOnce() -> R) -> Result<R, String> {
    install_panic_hook();
    let prev = CAPTURING.with(|c| std::mem::replace(&mut *c.borrow_mut(), true));
    let r = panic::catch_unwind(AssertUnwindSafe(f));
    CAPTURING.with(|c| *c.borrow_mut() = prev);
    match r {
        Ok(v) => Ok(v),
        Err(_) => Err(CAPTURE
            .with(|c| c.borrow_mut().take())
            .unwrap_or_else(|| "<panic>".to_string())),
    }
}

// ---------------------------------------------------------------------------------------------
// Small helpers

pub fn hash64<T: Hash + ?Sized>(t: &T) -> u64 {
    // FNV-1a based deterministic hasher (std's DefaultHasher is deterministic too, but make it explicit)
    struct Fnv(u64);
    impl Hasher for Fnv {
        fn finish(&self) -> u64 {
            self.0
        }
        fn write(&mut self, bytes: &[u8]) {
            for b in bytes {
                self.0 ^= *b as u64;
                self.0 = self.0.wrapping_mul(0x100000001b3);
            }
        }
    }
    let mut h = Fnv(0xcbf29ce484222325);
    t.hash(&mut h);
    h.finish()
}

/// Printable rendering of bytes for reports: ASCII kept, everything else `\xNN`.
pub fn show_bytes(b: &[u8]) -> String {
    let mut s = String::new();
    for &c in b {
        match c {
            b'\n' => s.push_str("\\n"),
            b'\r' => s.push_str("\\r"),
            b'\t' => s.push_str("\\t"),
            b'\\' => s.push_str("\\\\"),
            0x20..=0x7e => s.push(c as char),
            _ => s.push_str(&format!("\\x{c:02x}")),
        }
    }
    s
}

pub fn hex(b: &[u8]) -> String {
    b.iter().map(|c| format!("{c:02x}")).collect()
}

pub fn unhex(s: &str) -> Vec<u8> {
    (0..s.len() / 2)
        .map(|i| u8::from_str_radix(&s[2 * i..2 * i + 2], 16).unwrap_or(0))
        .collect()
}

/// All strings over `alphabet` (each symbol may be multi-byte) of length 0..=max_len, shortest first.
pub fn strings_over(alphabet: &[&str], max_len: usize) -> Vec<String> {
    let mut out = vec![String::new()];
    let mut layer = vec![String::new()];
    for _ in 0..max_len {
        let mut next = Vec::with_capacity(layer.len() * alphabet.len());
        for s in &layer {
            for a in alphabet {
                let mut t = s.clone();
                t.push_str(a);
                next.push(t);
            }
        }
        out.extend(next.iter().cloned());
        layer = next;
    }
    out
}

pub fn bytes_over(alphabet: &[u8], max_len: usize) -> Vec<Vec<u8>> {
    let mut out = vec![Vec::new()];
    let mut layer: Vec<Vec<u8>> = vec![Vec::new()];
    for _ in 0..max_len {
        let mut next = Vec::with_capacity(layer.len() * alphabet.len());
        for s in &layer {
            for a in alphabet {
                let mut t = s.clone();
                t.push(*a);
                next.push(t);
            }
        }
        out.extend(next.iter().cloned());
        layer = next;
    }
    out
}

/// Keep up to `n` evenly spread samples out of an iterator of known length.
pub fn spread_samples<T: Clone>(items: &[T], n: usize) -> Vec<T> {
    if items.len() <= n {
        return items.to_vec();
    }
    (0..n).map(|i| items[i * items.len() / n].clone()).collect()
}

/// What the server reads when `a` is sent as the single argument of a request: the rendering is
/// put on a request line and split by the port of MPD's tokenizer (a bare word and its quoted
/// spelling are the same argument). Falls back to the raw rendering if MPD would reject the line.
pub fn argument_as_the_server_reads_it(a: &impl mpd_protocol::command::Argument) -> String {
    let mut b = bytes::BytesMut::new();
    b.extend_from_slice(b"x ");
    a.render(&mut b);
    match crate::mpdref::tokenizer::tokenize(&b) {
        Ok(req) if req.args.len() == 1 => String::from_utf8_lossy(&req.args[0]).into_owned(),
        _ => String::from_utf8_lossy(&b[2..]).into_owned(),
    }
}
