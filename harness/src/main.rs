//! `verif <ID> quick|thorough` / `verif <ID> --replay <file>` / `verif selftest`
mod common;
mod engines;
mod io;
mod mpdref;
mod props;

use common::Tier;

fn main() {
    common::install_panic_hook();
    common::all_tracing_on_if_asked();
    let args: Vec<String> = std::env::args().collect();
    if args.len() < 2 {
        eprintln!("usage: verif <ID> quick|thorough | verif <ID> --replay <file> | verif selftest");
        std::process::exit(2);
    }
    if let Err(e) = mpdref::self_test() {
        common::machinery_error(&format!("reference model self-test failed: {e}"));
    }
    if args[1] == "selftest" {
        println!("mpdref self-test ok");
        return;
    }
    if args[1] == "trace-idx" {
        // verif trace-idx <scenario> <idx…>: run one schedule given by choice indices, twice, and show the logs
        let scn = props::loopprops::find_scenario_any(&args[2]).expect("unknown scenario");
        let idx: Vec<usize> = args[3..].iter().filter_map(|a| a.parse().ok()).collect();
        for round in 0..2 {
            let mut ch = engines::loopmc::IndexChooser { idx: idx.clone() };
            let t = engines::loopmc::run_once(&scn, &mut ch).expect("run");
            println!("--- round {round}: choices {:?}", t.choice_names());
            for l in t.render_log() {
                println!("{l}");
            }
        }
        return;
    }
    if args[1] == "trace" {
        // verif trace <property> <scenario> [choice names…]  — run one schedule and print its log
        let case = serde_json::json!({"scenario": {"name": args[3]}, "choices": args[4..].to_vec()});
        std::process::exit(props::replay(&args[2], &case));
    }
    let id = args[1].as_str();
    if args.len() >= 4 && args[2] == "--replay" {
        let text = match std::fs::read_to_string(&args[3]) {
            Ok(t) => t,
            Err(e) => common::machinery_error(&format!("cannot read replay file {}: {e}", args[3])),
        };
        let v: serde_json::Value = match serde_json::from_str(&text) {
            Ok(v) => v,
            Err(e) => common::machinery_error(&format!("replay file is not JSON: {e}")),
        };
        let case = v.get("case").cloned().unwrap_or(v);
        std::process::exit(props::replay(id, &case));
    }
    let tier = match args.get(2).map(|s| s.as_str()).or(std::env::var("VERIF_TIER").ok().as_deref()) {
        Some("thorough") => Tier::Thorough,
        _ => Tier::Quick,
    };
    std::process::exit(props::run(id, tier));
}
