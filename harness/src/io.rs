//! Harness-owned transports for the blocking connection.

use std::{
    io::{self, Read, Write},
    sync::{Arc, Mutex},
};

use mpd_protocol::{Command, CommandList, Connection};

/// Blocking duplex: reads come from a script of segments, writes go to a shared sink.
pub struct ScriptIo {
    /// segments still to be returned by `read` (one per call, clipped to the caller's buffer)
    pub segments: Vec<Vec<u8>>,
    pub seg_idx: usize,
    pub seg_off: usize,
    /// what to answer when the script is exhausted
    pub at_end: EndAnswer,
    pub reads: Arc<Mutex<ReadLog>>,
    pub sink: Arc<Mutex<Vec<u8>>>,
    /// `write` accepts at most this many bytes per call (short writes)
    pub write_limit: usize,
    /// after this many more bytes every `write` fails (broken pipe)
    pub write_fails_after: Option<usize>,
}

#[derive(Clone, Copy, Debug, PartialEq, Eq)]
pub enum EndAnswer {
    Eof,
    Error(io::ErrorKind),
}

#[derive(Default, Debug)]
pub struct ReadLog {
    pub calls: u64,
    pub bytes: u64,
    pub calls_after_end: u64,
    pub max_buf: usize,
}

impl ScriptIo {
    pub fn new(segments: Vec<Vec<u8>>) -> ScriptIo {
        ScriptIo {
            segments,
            seg_idx: 0,
            seg_off: 0,
            at_end: EndAnswer::Eof,
            reads: Arc::new(Mutex::new(ReadLog::default())),
            sink: Arc::new(Mutex::new(Vec::new())),
            write_limit: usize::MAX,
            write_fails_after: None,
        }
    }
    pub fn push_segments(&mut self, segs: Vec<Vec<u8>>) {
        self.segments.extend(segs);
    }
}

impl Read for ScriptIo {
    fn read(&mut self, buf: &mut [u8]) -> io::Result<usize> {
        let mut log = self.reads.lock().unwrap();
        log.calls += 1;
        log.max_buf = log.max_buf.max(buf.len());
        // skip exhausted / empty segments
        while self.seg_idx < self.segments.len() && self.seg_off >= self.segments[self.seg_idx].len() {
            self.seg_idx += 1;
            self.seg_off = 0;
        }
        if self.seg_idx >= self.segments.len() {
            log.calls_after_end += 1;
            return match self.at_end {
                EndAnswer::Eof => Ok(0),
                EndAnswer::Error(k) => Err(io::Error::new(k, "injected read error")),
            };
        }
        if buf.is_empty() {
            // A reader that is handed an empty buffer can only say 0; the caller must not take
            // this for EOF. Record it: it shows up as "reads with empty buffer".
            return Ok(0);
        }
        let seg = &self.segments[self.seg_idx];
        let n = (seg.len() - self.seg_off).min(buf.len());
        buf[..n].copy_from_slice(&seg[self.seg_off..self.seg_off + n]);
        self.seg_off += n;
        log.bytes += n as u64;
        Ok(n)
    }
}

impl Write for ScriptIo {
    fn write(&mut self, buf: &[u8]) -> io::Result<usize> {
        let mut n = buf.len().min(self.write_limit);
        if let Some(rem) = self.write_fails_after {
            if rem == 0 {
                return Err(io::Error::new(io::ErrorKind::BrokenPipe, "injected write error"));
            }
            n = n.min(rem);
            self.write_fails_after = Some(rem - n);
        }
        self.sink.lock().unwrap().extend_from_slice(&buf[..n]);
        Ok(n)
    }
    fn flush(&mut self) -> io::Result<()> {
        Ok(())
    }
}

pub const GREETING: &[u8] = b"OK MPD 0.23.5\n";

/// A connected blocking connection whose writes land in the returned sink.
pub fn sync_conn() -> (Connection<ScriptIo>, Arc<Mutex<Vec<u8>>>) {
    let io = ScriptIo::new(vec![GREETING.to_vec()]);
    let sink = io.sink.clone();
    let conn = Connection::connect(io).expect("harness greeting accepted");
    (conn, sink)
}

/// A send on one blocking connection fails (the transport breaks after `fail_after` bytes); then another
/// connection, created afterwards on the same thread, sends `second`: the bytes that second transport receives.
pub fn wire_after_failed_send(first: WireItem, fail_after: usize, second: WireItem) -> Result<Vec<u8>, String> {
    let mut io = ScriptIo::new(vec![GREETING.to_vec()]);
    io.write_fails_after = Some(fail_after);
    let mut a = Connection::connect(io).map_err(|e| format!("{e:?}"))?;
    let r = match first {
        WireItem::Command(c) => a.send(c),
        WireItem::List(l) => a.send_list(l),
    };
    if r.is_ok() {
        return Err("the send over a broken transport succeeded".into());
    }
    drop(a);
    let (mut b, sink) = sync_conn();
    match second {
        WireItem::Command(c) => b.send(c),
        WireItem::List(l) => b.send_list(l),
    }
    .map_err(|e| format!("{e:?}"))?;
    let v = sink.lock().unwrap().clone();
    Ok(v)
}

/// Bytes `Connection::send` puts on the wire for one command.
pub fn wire_of_command(cmd: Command) -> Vec<u8> {
    let (mut conn, sink) = sync_conn();
    conn.send(cmd).expect("write to Vec cannot fail");
    let v = sink.lock().unwrap().clone();
    v
}

/// Bytes `Connection::send_list` puts on the wire.
pub fn wire_of_list(list: CommandList) -> Vec<u8> {
    let (mut conn, sink) = sync_conn();
    conn.send_list(list).expect("write to Vec cannot fail");
    let v = sink.lock().unwrap().clone();
    v
}

/// Parse a server byte stream with the real blocking connection and return the real responses
/// (stops at the first terminal result). The greeting is served in its own read.
pub fn parse_responses(stream: &[u8]) -> Vec<mpd_protocol::response::Response> {
    let io = ScriptIo::new(vec![GREETING.to_vec(), stream.to_vec()]);
    let mut conn = Connection::connect(io).expect("harness greeting accepted");
    let mut out = Vec::new();
    while let Ok(Some(r)) = conn.receive() {
        out.push(r);
    }
    out
}

/// Like `parse_responses`, but also reports how the stream ended (`Ok(())` = clean end).
pub fn parse_responses_checked(stream: &[u8]) -> (Vec<mpd_protocol::response::Response>, Result<(), mpd_protocol::MpdProtocolError>) {
    let io = ScriptIo::new(vec![GREETING.to_vec(), stream.to_vec()]);
    let mut conn = Connection::connect(io).expect("harness greeting accepted");
    let mut out = Vec::new();
    loop {
        match conn.receive() {
            Ok(Some(r)) => out.push(r),
            Ok(None) => return (out, Ok(())),
            Err(e) => return (out, Err(e)),
        }
    }
}

/// Like `wire_of_command` / `wire_of_list`, over a transport that accepts at most `limit` bytes
/// per `write` call.
pub fn wire_sync_limited(item: WireItem, limit: usize) -> Result<Vec<u8>, String> {
    let mut io = ScriptIo::new(vec![GREETING.to_vec()]);
    io.write_limit = limit;
    let sink = io.sink.clone();
    let mut conn = Connection::connect(io).expect("harness greeting accepted");
    match item {
        WireItem::Command(c) => conn.send(c),
        WireItem::List(l) => conn.send_list(l),
    }
    .map_err(|e| format!("{e:?}"))?;
    let v = sink.lock().unwrap().clone();
    Ok(v)
}

pub enum WireItem {
    Command(Command),
    List(CommandList),
}

/// Transport for the asynchronous connection: serves the greeting, then nothing; accepts at most
/// `limit` bytes per `poll_write`.
pub struct AsyncSinkIo {
    greeting_done: bool,
    limit: usize,
    /// after every accepted write the transport is busy once (`Pending`, woken at once) before it takes more
    wait_between_writes: bool,
    busy: bool,
    /// poll_write calls left before the transport gives up on a writer that makes no progress
    polls_left: usize,
    pub sink: Arc<Mutex<Vec<u8>>>,
}

impl tokio::io::AsyncRead for AsyncSinkIo {
    fn poll_read(mut self: std::pin::Pin<&mut Self>, _cx: &mut std::task::Context<'_>, buf: &mut tokio::io::ReadBuf<'_>) -> std::task::Poll<io::Result<()>> {
        if !self.greeting_done {
            self.greeting_done = true;
            buf.put_slice(GREETING);
            return std::task::Poll::Ready(Ok(()));
        }
        std::task::Poll::Pending
    }
}

impl tokio::io::AsyncWrite for AsyncSinkIo {
    fn poll_write(mut self: std::pin::Pin<&mut Self>, cx: &mut std::task::Context<'_>, buf: &[u8]) -> std::task::Poll<io::Result<usize>> {
        if self.polls_left == 0 {
            return std::task::Poll::Ready(Err(io::Error::new(io::ErrorKind::Other, "the writer makes no progress (poll budget of the harness transport exhausted)")));
        }
        self.polls_left -= 1;
        if self.wait_between_writes && self.busy {
            self.busy = false;
            cx.waker().wake_by_ref();
            return std::task::Poll::Pending;
        }
        let n = buf.len().min(self.limit);
        self.sink.lock().unwrap().extend_from_slice(&buf[..n]);
        self.busy = true;
        std::task::Poll::Ready(Ok(n))
    }
    fn poll_flush(self: std::pin::Pin<&mut Self>, _cx: &mut std::task::Context<'_>) -> std::task::Poll<io::Result<()>> {
        std::task::Poll::Ready(Ok(()))
    }
    fn poll_shutdown(self: std::pin::Pin<&mut Self>, _cx: &mut std::task::Context<'_>) -> std::task::Poll<io::Result<()>> {
        std::task::Poll::Ready(Ok(()))
    }
}

/// Polls a future that never has to wait (all transport answers are immediate).
pub fn drive_ready<F: std::future::Future>(fut: F) -> Result<F::Output, String> {
    let waker = crate::engines::loopmc::noop_waker();
    let mut cx = std::task::Context::from_waker(&waker);
    let mut fut = std::pin::pin!(fut);
    for _ in 0..1_000_000 {
        if let std::task::Poll::Ready(v) = fut.as_mut().poll(&mut cx) {
            return Ok(v);
        }
    }
    Err("future still pending after 1000000 polls".into())
}

/// Bytes `AsyncConnection::send` / `send_list` put on the wire over a short-writing transport.
pub fn wire_async_limited(item: WireItem, limit: usize) -> Result<Vec<u8>, String> {
    wire_async(item, limit, false)
}

/// ... over a transport that takes `limit` bytes, is busy (Pending) once, takes `limit` more, ...
pub fn wire_async_limited_waiting(item: WireItem, limit: usize) -> Result<Vec<u8>, String> {
    wire_async(item, limit, true)
}

fn wire_async(item: WireItem, limit: usize, wait_between_writes: bool) -> Result<Vec<u8>, String> {
    let io = AsyncSinkIo { greeting_done: false, limit, wait_between_writes, busy: false, polls_left: if wait_between_writes { 4_000 } else { 3_000_000 }, sink: Arc::new(Mutex::new(Vec::new())) };
    let sink = io.sink.clone();
    let mut conn = drive_ready(mpd_protocol::AsyncConnection::connect(io))?.map_err(|e| format!("{e:?}"))?;
    match item {
        WireItem::Command(c) => drive_ready(conn.send(c))?,
        WireItem::List(l) => drive_ready(conn.send_list(l))?,
    }
    .map_err(|e| format!("{e:?}"))?;
    let v = sink.lock().unwrap().clone();
    Ok(v)
}
