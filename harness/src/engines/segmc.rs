//! `segmc` — explorer of environment answers for the protocol connections.
//!
//! The subject (`Connection`, `AsyncConnection`) is sequential; its "schedule" is the sequence of
//! answers the transport gives to `read` / `poll_read`: how many bytes (the segmentation of the
//! stream), `Pending` (async), end of stream, or an error. A scripted reader returns exactly the
//! segment the explorer chose. The async flavour needs no runtime: the futures are polled by hand
//! with a no-op waker.

use std::{
    cell::Cell,
    future::Future,
    io::{self, Read},
    pin::{pin, Pin},
    task::{Context, Poll},
};

use mpd_protocol::{AsyncConnection, Connection, MpdProtocolError};
use tokio::io::{AsyncRead, AsyncWrite, ReadBuf};

use crate::{
    common::catch,
    engines::loopmc::noop_waker,
    mpdref::wire::{observe_response, AResponse},
};

pub const GREETING: &[u8] = b"OK MPD 0.23.5\n";

#[derive(Clone, Copy, Debug, PartialEq, Eq, Hash)]
pub enum Flavor {
    Sync,
    Async,
}

#[derive(Clone, Copy, Debug, PartialEq, Eq)]
pub enum EndAnswer {
    Eof,
    Error,
}

#[derive(Clone, Debug, PartialEq, Eq, Hash)]
pub enum Terminal {
    Clean,
    UnexpectedEof,
    Invalid,
    Io(String),
    Panic(String),
    Hang,
    /// more responses than the caller allowed
    TooMany,
}

#[derive(Clone, Debug, PartialEq, Eq, Hash)]
pub struct Session {
    pub responses: Vec<AResponse>,
    pub end: Terminal,
}

pub struct Script<'a> {
    pub stream: &'a [u8],
    /// sorted, strictly increasing cut positions in 1..stream.len()
    pub cuts: &'a [usize],
    pub end: EndAnswer,
    /// async only: bit j set = answer `Pending` once before read number j
    pub pending_mask: u64,
    /// async only: bit j set = answer `Pending` before read number j and have the caller DROP the
    /// `receive()` future and call `receive()` again (what `select!` does to a losing branch)
    pub cancel_mask: u64,
    /// like cancel_mask, but the future is dropped TWICE in a row before read number j (the second
    /// receive() call gets no new data either)
    pub cancel_twice_mask: u64,
    /// async only: after every cancellation the caller sends a command (`noidle`) on the connection
    /// before it calls `receive()` again (what the client's loop does when a request wins the select)
    pub send_after_cancel: bool,
    /// drive the connection through `command()` (send + receive in one call) instead of `receive()`
    pub via_command: bool,
}

#[derive(Default)]
pub struct ReaderState {
    pos: Cell<usize>,
    pub reads: Cell<u64>,
    pub after_end: Cell<u64>,
    pend_done: Cell<u64>,
    cancel_done: Cell<u64>,
    cancel_twice_done: Cell<u64>,
    pub cancel_requested: Cell<bool>,
    pub cancellations: Cell<u64>,
    pub max_buf: Cell<usize>,
    pub empty_buf_reads: Cell<u64>,
}

const AFTER_END_CAP: u64 = 24;

fn next_segment(script: &Script<'_>, pos: usize) -> usize {
    // end of the segment that starts at pos
    match script.cuts.iter().find(|&&c| c > pos) {
        Some(&c) => c.min(script.stream.len()),
        None => script.stream.len(),
    }
}

struct SyncReader<'a> {
    script: &'a Script<'a>,
    st: &'a ReaderState,
}

impl Read for SyncReader<'_> {
    fn read(&mut self, buf: &mut [u8]) -> io::Result<usize> {
        let st = self.st;
        st.reads.set(st.reads.get() + 1);
        st.max_buf.set(st.max_buf.get().max(buf.len()));
        let pos = st.pos.get();
        if pos >= self.script.stream.len() {
            st.after_end.set(st.after_end.get() + 1);
            if st.after_end.get() > AFTER_END_CAP {
                panic!("HANG: reader asked {} times after the end of the stream", st.after_end.get());
            }
            return match self.script.end {
                EndAnswer::Eof => Ok(0),
                EndAnswer::Error => Err(io::Error::new(io::ErrorKind::ConnectionReset, "injected read error")),
            };
        }
        if buf.is_empty() {
            st.empty_buf_reads.set(st.empty_buf_reads.get() + 1);
            if st.empty_buf_reads.get() > AFTER_END_CAP {
                panic!("HANG: reader handed an empty buffer {} times", st.empty_buf_reads.get());
            }
            return Ok(0);
        }
        let end = next_segment(self.script, pos);
        let n = (end - pos).min(buf.len());
        buf[..n].copy_from_slice(&self.script.stream[pos..pos + n]);
        st.pos.set(pos + n);
        Ok(n)
    }
}

struct AsyncReader<'a> {
    script: &'a Script<'a>,
    st: &'a ReaderState,
}

impl AsyncRead for AsyncReader<'_> {
    fn poll_read(self: Pin<&mut Self>, _cx: &mut Context<'_>, buf: &mut ReadBuf<'_>) -> Poll<io::Result<()>> {
        let st = self.st;
        let j = st.reads.get();
        if j < 32 && self.script.cancel_twice_mask & (1 << j) != 0 && st.cancel_twice_done.get() & (0b11 << (2 * j)) != (0b11 << (2 * j)) {
            // first and second cancellation before read j
            let done = st.cancel_twice_done.get();
            let bit = if done & (1 << (2 * j)) == 0 { 1u64 << (2 * j) } else { 1u64 << (2 * j + 1) };
            st.cancel_twice_done.set(done | bit);
            st.cancel_requested.set(true);
            return Poll::Pending;
        }
        if j < 64 && self.script.cancel_mask & (1 << j) != 0 && st.cancel_done.get() & (1 << j) == 0 {
            st.cancel_done.set(st.cancel_done.get() | (1 << j));
            st.cancel_requested.set(true);
            return Poll::Pending;
        }
        if j < 64 && self.script.pending_mask & (1 << j) != 0 && st.pend_done.get() & (1 << j) == 0 {
            st.pend_done.set(st.pend_done.get() | (1 << j));
            return Poll::Pending;
        }
        st.reads.set(j + 1);
        st.max_buf.set(st.max_buf.get().max(buf.remaining()));
        let pos = st.pos.get();
        if pos >= self.script.stream.len() {
            st.after_end.set(st.after_end.get() + 1);
            if st.after_end.get() > AFTER_END_CAP {
                panic!("HANG: reader polled {} times after the end of the stream", st.after_end.get());
            }
            return Poll::Ready(match self.script.end {
                EndAnswer::Eof => Ok(()),
                EndAnswer::Error => Err(io::Error::new(io::ErrorKind::ConnectionReset, "injected read error")),
            });
        }
        if buf.remaining() == 0 {
            st.empty_buf_reads.set(st.empty_buf_reads.get() + 1);
            if st.empty_buf_reads.get() > AFTER_END_CAP {
                panic!("HANG: reader handed a full buffer {} times", st.empty_buf_reads.get());
            }
            return Poll::Ready(Ok(()));
        }
        let end = next_segment(self.script, pos);
        let n = (end - pos).min(buf.remaining());
        buf.put_slice(&self.script.stream[pos..pos + n]);
        st.pos.set(pos + n);
        Poll::Ready(Ok(()))
    }
}

fn classify(e: &MpdProtocolError) -> Terminal {
    match e {
        MpdProtocolError::InvalidMessage => Terminal::Invalid,
        MpdProtocolError::Io(e) if e.kind() == io::ErrorKind::UnexpectedEof => Terminal::UnexpectedEof,
        MpdProtocolError::Io(e) => Terminal::Io(format!("{:?}", e.kind())),
    }
}

fn drive<F: Future>(fut: F) -> Result<F::Output, Terminal> {
    let waker = noop_waker();
    let mut cx = Context::from_waker(&waker);
    let mut fut = pin!(fut);
    let mut polls = 0u32;
    loop {
        polls += 1;
        if polls > 200 {
            return Err(Terminal::Hang);
        }
        if let Poll::Ready(v) = fut.as_mut().poll(&mut cx) {
            return Ok(v);
        }
    }
}

enum Driven<T> {
    Done(T),
    Cancelled,
    Hang,
}

/// like `drive`, but drops the future when the reader asked for a cancellation
fn drive_cancellable<F: Future>(fut: F, st: &ReaderState) -> Driven<F::Output> {
    let waker = noop_waker();
    let mut cx = Context::from_waker(&waker);
    let mut fut = pin!(fut);
    let mut polls = 0u32;
    loop {
        polls += 1;
        if polls > 200 {
            return Driven::Hang;
        }
        match fut.as_mut().poll(&mut cx) {
            Poll::Ready(v) => return Driven::Done(v),
            Poll::Pending => {
                if st.cancel_requested.replace(false) {
                    st.cancellations.set(st.cancellations.get() + 1);
                    return Driven::Cancelled; // the future is dropped here
                }
            }
        }
    }
}

/// A connection that has completed the handshake on its own greeting read.
fn greeting_script() -> Script<'static> {
    Script { stream: GREETING, cuts: &[], end: EndAnswer::Eof, pending_mask: 0, cancel_mask: 0, cancel_twice_mask: 0, send_after_cancel: false, via_command: false }
}

/// Feed `script.stream` (after a handshake with a fixed greeting delivered in its own read) and
/// call `receive` until a terminal result; at most `max_responses` responses are accepted.
/// `probe_after_end`: call `receive` once more after the terminal result (must not panic or hang).
pub fn run_session(flavor: Flavor, script: &Script<'_>, max_responses: usize, probe_after_end: bool) -> (Session, ReaderState) {
    let st = ReaderState::default();
    let session = match catch(|| run_session_inner(flavor, script, &st, max_responses, probe_after_end)) {
        Ok(s) => s,
        Err(msg) => {
            if msg.starts_with("HANG") {
                Session { responses: vec![], end: Terminal::Hang }
            } else {
                Session { responses: vec![], end: Terminal::Panic(msg) }
            }
        }
    };
    (session, st)
}

/// Two-phase reader: greeting first (own read), then the scripted stream.
struct Phased<'a, R> {
    greeting_done: bool,
    inner: R,
    _p: std::marker::PhantomData<&'a ()>,
}

impl<R: Read> Read for Phased<'_, R> {
    fn read(&mut self, buf: &mut [u8]) -> io::Result<usize> {
        if !self.greeting_done {
            self.greeting_done = true;
            let n = GREETING.len().min(buf.len());
            buf[..n].copy_from_slice(&GREETING[..n]);
            return Ok(n);
        }
        self.inner.read(buf)
    }
}

impl<R: AsyncRead + Unpin> AsyncRead for Phased<'_, R> {
    fn poll_read(mut self: Pin<&mut Self>, cx: &mut Context<'_>, buf: &mut ReadBuf<'_>) -> Poll<io::Result<()>> {
        if !self.greeting_done {
            self.greeting_done = true;
            buf.put_slice(GREETING);
            return Poll::Ready(Ok(()));
        }
        Pin::new(&mut self.inner).poll_read(cx, buf)
    }
}

/// writes are accepted and discarded
impl<R> io::Write for Phased<'_, R> {
    fn write(&mut self, buf: &[u8]) -> io::Result<usize> {
        Ok(buf.len())
    }
    fn flush(&mut self) -> io::Result<()> {
        Ok(())
    }
}

/// writes are accepted and discarded
impl<R: Unpin> AsyncWrite for Phased<'_, R> {
    fn poll_write(self: Pin<&mut Self>, _cx: &mut Context<'_>, buf: &[u8]) -> Poll<io::Result<usize>> {
        Poll::Ready(Ok(buf.len()))
    }
    fn poll_flush(self: Pin<&mut Self>, _cx: &mut Context<'_>) -> Poll<io::Result<()>> {
        Poll::Ready(Ok(()))
    }
    fn poll_shutdown(self: Pin<&mut Self>, _cx: &mut Context<'_>) -> Poll<io::Result<()>> {
        Poll::Ready(Ok(()))
    }
}

fn run_session_inner(flavor: Flavor, script: &Script<'_>, st: &ReaderState, max_responses: usize, probe_after_end: bool) -> Session {
    let _ = greeting_script;
    let mut responses = Vec::new();
    match flavor {
        Flavor::Sync => {
            let io = Phased { greeting_done: false, inner: SyncReader { script, st }, _p: std::marker::PhantomData };
            let mut conn = match Connection::connect(io) {
                Ok(c) => c,
                Err(e) => return Session { responses, end: Terminal::Io(format!("harness greeting rejected: {e:?}")) },
            };
            let end = loop {
                let got = if script.via_command { conn.command(mpd_protocol::Command::new("status")).map(Some) } else { conn.receive() };
                match got {
                    Ok(Some(r)) => {
                        if responses.len() >= max_responses {
                            break Terminal::TooMany;
                        }
                        responses.push(observe_response(&r));
                    }
                    Ok(None) => break Terminal::Clean,
                    Err(e) => break classify(&e),
                }
            };
            if probe_after_end {
                let _ = conn.receive();
            }
            Session { responses, end }
        }
        Flavor::Async => {
            let io = Phased { greeting_done: false, inner: AsyncReader { script, st }, _p: std::marker::PhantomData };
            let mut conn = match drive(AsyncConnection::connect(io)) {
                Ok(Ok(c)) => c,
                Ok(Err(e)) => return Session { responses, end: Terminal::Io(format!("harness greeting rejected: {e:?}")) },
                Err(t) => return Session { responses, end: t },
            };
            let end = loop {
                if script.via_command {
                    match drive(conn.command(mpd_protocol::Command::new("status"))) {
                        Ok(Ok(r)) => {
                            if responses.len() >= max_responses {
                                break Terminal::TooMany;
                            }
                            responses.push(observe_response(&r));
                            continue;
                        }
                        Ok(Err(e)) => break classify(&e),
                        Err(t) => break t,
                    }
                }
                match drive_cancellable(conn.receive(), st) {
                    Driven::Hang => break Terminal::Hang,
                    Driven::Cancelled => {
                        if script.send_after_cancel {
                            match drive(conn.send(mpd_protocol::Command::new("noidle"))) {
                                Ok(Ok(())) => {}
                                Ok(Err(e)) => break classify(&e),
                                Err(t) => break t,
                            }
                        }
                        continue;
                    }
                    Driven::Done(Ok(Some(r))) => {
                        if responses.len() >= max_responses {
                            break Terminal::TooMany;
                        }
                        responses.push(observe_response(&r));
                    }
                    Driven::Done(Ok(None)) => break Terminal::Clean,
                    Driven::Done(Err(e)) => break classify(&e),
                }
            };
            if probe_after_end {
                let _ = drive(conn.receive());
            }
            Session { responses, end }
        }
    }
}

/// Result of a handshake on arbitrary greeting bytes.
#[derive(Clone, Debug, PartialEq, Eq, Hash)]
pub enum ConnectResult {
    Version(String),
    End(Terminal),
}

pub fn run_connect(flavor: Flavor, script: &Script<'_>) -> (ConnectResult, ReaderState) {
    let st = ReaderState::default();
    let r = catch(|| match flavor {
        Flavor::Sync => match Connection::connect(SyncReader { script, st: &st }) {
            Ok(c) => ConnectResult::Version(c.protocol_version().to_string()),
            Err(e) => ConnectResult::End(classify(&e)),
        },
        Flavor::Async => match drive(AsyncConnection::connect(AsyncReader { script, st: &st })) {
            Ok(Ok(c)) => ConnectResult::Version(c.protocol_version().to_string()),
            Ok(Err(e)) => ConnectResult::End(classify(&e)),
            Err(t) => ConnectResult::End(t),
        },
    });
    let r = match r {
        Ok(r) => r,
        Err(msg) if msg.starts_with("HANG") => ConnectResult::End(Terminal::Hang),
        Err(msg) => ConnectResult::End(Terminal::Panic(msg)),
    };
    (r, st)
}

// ---------------------------------------------------------------------------------------------
// Segmentation enumerators

/// All 2^(n-1) compositions of a stream of length n, as cut lists.
pub fn all_compositions(n: usize) -> impl Iterator<Item = Vec<usize>> {
    let bits = n.saturating_sub(1);
    (0u64..(1u64 << bits)).map(move |mask| (0..bits).filter(|b| mask & (1 << b) != 0).map(|b| b + 1).collect())
}

/// All cut lists with at most `k` cuts (k <= 3) out of positions 1..n.
pub fn upto_k_cuts(n: usize, k: usize) -> Vec<Vec<usize>> {
    let mut out = vec![vec![]];
    if n < 2 {
        return out;
    }
    if k >= 1 {
        for a in 1..n {
            out.push(vec![a]);
        }
    }
    if k >= 2 {
        for a in 1..n {
            for b in a + 1..n {
                out.push(vec![a, b]);
            }
        }
    }
    if k >= 3 {
        for a in 1..n {
            for b in a + 1..n {
                for c in b + 1..n {
                    out.push(vec![a, b, c]);
                }
            }
        }
    }
    out
}

/// Cut list for fixed chunk size.
pub fn chunked(n: usize, size: usize) -> Vec<usize> {
    (1..n).filter(|p| p % size == 0).collect()
}
