pub mod loopmc;
