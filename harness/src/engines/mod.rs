pub mod loopmc;
pub mod segmc;
