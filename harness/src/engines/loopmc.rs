//! `loopmc` — stateless model checker for the real `mpd_client::Client` event loop.
//!
//! One execution = one fresh world: a tokio current-thread runtime with a paused clock, the real
//! client connected to a scripted transport (`MockIo`) whose peer is the simulated MPD server
//! (`mpdref::server::SimServer`), and a set of logical callers. The harness owns every source of
//! nondeterminism: it injects exactly one event per step (deliver bytes, issue / cancel a request,
//! server-side notification, advance the clock, inject a fault) and then runs the system to
//! quiescence. Exploration is a depth-first search over choice sequences by re-execution, bounded
//! by the number of *deviations* from the default schedule (see DESIGN.md 3.1).

use std::{
    collections::{BTreeMap, HashSet},
    future::Future,
    io,
    pin::Pin,
    sync::{
        atomic::{AtomicBool, AtomicU64, Ordering},
        Arc, Mutex,
    },
    task::{Context, Poll, Wake, Waker},
    time::Duration,
};

use mpd_client::{
    client::{CommandError, ConnectWithPasswordError, ConnectionEvent, ConnectionEvents},
    protocol::{Command as RawCommand, CommandList as RawCommandList, MpdProtocolError},
    Client,
};
use rayon::prelude::*;
use serde_json::{json, Value};
use tokio::io::{AsyncRead, AsyncWrite, ReadBuf};

use crate::{
    common::*,
    mpdref::{
        server::{ServerConfig, SimServer},
        wire::{observe_error, observe_frame, AError, AFrame},
    },
};

// ---------------------------------------------------------------------------------------------
// Transport

#[derive(Clone, Debug, PartialEq, Eq, Hash)]
pub enum Obs {
    /// harness event (name) with the step number
    Ev { step: usize, name: String, strict_tick: bool },
    Write(Vec<u8>),
    Read(Vec<u8>),
    ReadEof,
    ReadErr,
    WriteErr,
    Connected(String),
    ConnectFailed(String),
    Done { caller: usize, op: usize, result: String },
    Event(String),
    EventsEnded,
    IoDropped,
    Drain,
}

pub struct Shared {
    pub s2c: Vec<u8>,
    pub delivered: usize,
    pub read_pos: usize,
    read_waker: Option<Waker>,
    /// the server->client stream ends (EOF) at this length
    pub closed_at: Option<usize>,
    pub read_err: bool,
    /// reads fail once the client has read this many bytes (what was in flight before the error is still readable)
    pub read_err_at: Option<usize>,
    pub write_err: bool,
    pub c2s: Vec<u8>,
    pub server: SimServer,
    pub io_dropped: bool,
    pub activity: u64,
    pub log: Vec<Obs>,
    pub saw_eof: bool,
    pub saw_read_err: bool,
    pub saw_write_err: bool,
    /// per client write: (c2s length after it, bytes of s2c the client had read, bytes of s2c the
    /// server had produced before seeing it)
    pub read_pos_at_write: Vec<(usize, usize, usize)>,
    obs_hashed: usize,
    obs_running: u64,
    pub greeting_len: usize,
    /// short writes: the transport accepts at most this many bytes per write call
    pub write_chunk: Option<usize>,
    /// stalled transport: `Some(n)` = only n more bytes are accepted, then writes return Pending
    pub write_stall: Option<usize>,
    write_waker: Option<Waker>,
    /// lazy server: bytes written by the client wait here until a ServerStep event processes a line
    pub lazy: bool,
    pub inbox: Vec<u8>,
}

impl Shared {
    pub fn visible_len(&self) -> usize {
        self.closed_at.unwrap_or(self.s2c.len()).min(self.s2c.len())
    }
    fn wake_reader(&mut self) {
        if let Some(w) = self.read_waker.take() {
            w.wake();
        }
    }
}

pub struct MockIo(pub Arc<Mutex<Shared>>);

impl AsyncRead for MockIo {
    fn poll_read(self: Pin<&mut Self>, cx: &mut Context<'_>, buf: &mut ReadBuf<'_>) -> Poll<io::Result<()>> {
        let mut s = self.0.lock().unwrap();
        if s.read_err {
            s.activity += 1;
            s.saw_read_err = true;
            s.log.push(Obs::ReadErr);
            return Poll::Ready(Err(io::Error::new(io::ErrorKind::ConnectionReset, "injected read error")));
        }
        let mut avail = s.delivered.min(s.visible_len()).saturating_sub(s.read_pos);
        // the greeting never shares a read with what follows it: a conforming server speaks only
        // when asked, so nothing can be in flight behind the greeting (DESIGN.md section 9)
        if s.read_pos < s.greeting_len {
            avail = avail.min(s.greeting_len - s.read_pos);
        }
        if avail > 0 {
            let n = avail.min(buf.remaining());
            if n == 0 {
                // caller handed us a full buffer; nothing sensible to do but report 0 bytes
                return Poll::Ready(Ok(()));
            }
            let start = s.read_pos;
            buf.put_slice(&s.s2c[start..start + n]);
            s.read_pos += n;
            s.activity += 1;
            let chunk = s.s2c[start..start + n].to_vec();
            s.log.push(Obs::Read(chunk));
            return Poll::Ready(Ok(()));
        }
        if let Some(at) = s.read_err_at {
            if s.read_pos >= at.min(s.s2c.len()) {
                s.activity += 1;
                s.saw_read_err = true;
                s.log.push(Obs::ReadErr);
                return Poll::Ready(Err(io::Error::new(io::ErrorKind::ConnectionReset, "injected read error behind the data in flight")));
            }
        }
        if let Some(end) = s.closed_at {
            if s.read_pos >= end.min(s.s2c.len()) {
                s.activity += 1;
                s.saw_eof = true;
                s.log.push(Obs::ReadEof);
                return Poll::Ready(Ok(()));
            }
        }
        s.read_waker = Some(cx.waker().clone());
        Poll::Pending
    }
}

impl AsyncWrite for MockIo {
    fn poll_write(self: Pin<&mut Self>, _cx: &mut Context<'_>, buf: &[u8]) -> Poll<io::Result<usize>> {
        let mut guard = self.0.lock().unwrap();
        let s = &mut *guard;
        s.activity += 1;
        if s.write_err {
            s.saw_write_err = true;
            s.log.push(Obs::WriteErr);
            return Poll::Ready(Err(io::Error::new(io::ErrorKind::BrokenPipe, "injected write error")));
        }
        // a stalled transport (full send buffer) accepts a few more bytes and then makes the writer wait
        let buf = match s.write_stall {
            Some(0) => {
                s.activity -= 1;
                s.write_waker = Some(_cx.waker().clone());
                return Poll::Pending;
            }
            Some(n) => {
                let k = n.min(buf.len());
                s.write_stall = Some(n - k);
                &buf[..k]
            }
            None => buf,
        };
        // a transport may take fewer bytes than offered (short write); the caller has to come back
        let buf = match s.write_chunk {
            Some(c) if c < buf.len() => &buf[..c.max(1)],
            _ => buf,
        };
        s.c2s.extend_from_slice(buf);
        s.log.push(Obs::Write(buf.to_vec()));
        let rp = s.read_pos;
        let wl = s.c2s.len();
        let produced = s.visible_len();
        s.read_pos_at_write.push((wl, rp, produced));
        if s.closed_at.is_none() {
            if s.lazy {
                s.inbox.extend_from_slice(buf);
            } else {
                s.server.feed(buf, &mut s.s2c);
            }
        }
        Poll::Ready(Ok(buf.len()))
    }
    fn poll_flush(self: Pin<&mut Self>, _cx: &mut Context<'_>) -> Poll<io::Result<()>> {
        Poll::Ready(Ok(()))
    }
    fn poll_shutdown(self: Pin<&mut Self>, _cx: &mut Context<'_>) -> Poll<io::Result<()>> {
        Poll::Ready(Ok(()))
    }
}

impl Drop for MockIo {
    fn drop(&mut self) {
        if let Ok(mut s) = self.0.lock() {
            s.io_dropped = true;
            s.activity += 1;
            s.log.push(Obs::IoDropped);
        }
    }
}

// ---------------------------------------------------------------------------------------------
// Scenario description

#[derive(Clone, Debug, PartialEq, Eq)]
pub enum Op {
    /// `client.raw_command(<line>)`; the line is `name arg…`, unique per op
    Raw(String),
    /// `client.raw_command_list([...])`
    RawList(Vec<String>),
    /// `client.album_art(uri)`
    AlbumArt(String),
    /// typed `Vec<Probe>` list through `Client::command_list`
    ProbeVec(Vec<u32>),
    /// typed tuple list of the given arity (1..=8) through `Client::command_list`
    ProbeTuple(Vec<u32>),
    /// typed single command through `Client::command`
    ProbeSingle(u32),
    /// typed tuple list mixing probes with commands whose replies carry a binary part:
    /// (probe 1, readpicture pa, probe 2, readpicture pb, readpicture nothing, probe 3)
    MixedList,
}

pub const MIXED_LIST_LINES: [&str; 6] = ["probe 1", "readpicture pa 0", "probe 2", "readpicture pb 0", "readpicture nothing 0", "probe 3"];

/// how a frame with (or without) a binary part shows up in the result vector of `Op::MixedList`
pub fn describe_art(data: Option<(&[u8], Option<&str>)>) -> String {
    match data {
        None => "art:none".to_string(),
        Some((d, mime)) => format!("art:{}:{:016x}:{:?}", d.len(), hash64(&d), mime),
    }
}

#[derive(Clone, Debug)]
pub struct CallerProg {
    pub ops: Vec<Op>,
    /// may issue the next op while earlier ones are still pending
    pub pipeline: bool,
}

#[derive(Clone, Copy, Debug, PartialEq, Eq)]
pub enum SplitMenu {
    /// every line boundary, 1 byte, len-1
    Lines,
    /// every byte offset
    Bytes,
}

#[derive(Clone, Copy, Debug, PartialEq, Eq, Hash, PartialOrd, Ord)]
pub enum FaultKind {
    Close,
    /// like Close, and every later write fails (connection reset)
    CloseRst,
    ReadErr,
    /// the connection fails behind the data in flight: p more bytes are still readable, the read after them fails
    ReadErrAfter,
    WriteErr,
    Garbage,
    /// malformed bytes without a line end, then silence (the connection stays open)
    GarbageOpen,
    /// a well-formed `binary:` header announcing more bytes than can exist, then the end of the stream
    HugeBinary,
    DropHandles,
}

#[derive(Clone, Debug)]
pub enum ConnectMode {
    Plain,
    Password(String),
    PasswordOpt(Option<String>),
}

#[derive(Clone, Debug)]
pub struct Scenario {
    pub name: String,
    pub callers: Vec<CallerProg>,
    pub notify_names: Vec<&'static str>,
    pub notify_budget: usize,
    pub split_budget: usize,
    pub split_menu: SplitMenu,
    pub cancel_budget: usize,
    /// how many times a request and readable bytes may hit the idle select in the same poll
    pub race_budget: usize,
    /// how many requests may reach the idle select with the queue branch polled first (each costs a deviation)
    pub order_flip_budget: usize,
    /// `Some(n)`: the transport accepts at most n bytes per write call (short writes)
    pub write_chunk: Option<usize>,
    /// the server processes request lines only at explicit ServerStep events (validation of the
    /// eager-server reduction, DESIGN.md section 5)
    pub lazy_server: bool,
    /// the application does not poll `ConnectionEvents` until the very end
    pub poll_events_at_end_only: bool,
    /// how often the transport's write side may stall (Pending) for a while
    pub stall_budget: usize,
    /// how often an hour may pass while the client waits for a reply
    pub long_tick_budget: usize,
    /// subsystem changes that happen before the server has processed the client's first `idle`
    /// (they count against `notify_budget`)
    pub initial_notifications: Vec<&'static str>,
    pub faults: Vec<FaultKind>,
    pub fault_budget: usize,
    pub tick_anywhere: bool,
    /// how many ticks may be taken at points where no re-idle timer can be running
    pub loose_tick_budget: usize,
    pub drop_events_rx: bool,
    /// the application keeps `ConnectionEvents` alive but never polls it, not even at the end
    pub never_poll_events: bool,
    /// every request goes through a fresh clone of the client (default: each caller keeps one
    /// handle for all its requests)
    pub fresh_clone_per_op: bool,
    pub connect: ConnectMode,
    pub server: ServerConfig,
    /// deliver the greeting up front (false: greeting delivery is explored like any other bytes)
    pub greeting_upfront: bool,
    pub greeting: Vec<u8>,
    /// issue one more request from a fresh handle during drain (C08: later requests resolve)
    pub late_probe: bool,
    pub max_steps: usize,
}

impl Scenario {
    pub fn new(name: &str, callers: Vec<CallerProg>) -> Scenario {
        Scenario {
            name: name.to_string(),
            callers,
            notify_names: vec![],
            notify_budget: 0,
            split_budget: 0,
            split_menu: SplitMenu::Lines,
            cancel_budget: 0,
            race_budget: 1,
            order_flip_budget: 1,
            write_chunk: None,
            lazy_server: false,
            poll_events_at_end_only: false,
            stall_budget: 0,
            long_tick_budget: 1,
            initial_notifications: vec![],
            faults: vec![],
            fault_budget: 0,
            tick_anywhere: false,
            loose_tick_budget: 2,
            drop_events_rx: false,
            never_poll_events: false,
            fresh_clone_per_op: false,
            connect: ConnectMode::Plain,
            server: ServerConfig::default(),
            greeting_upfront: true,
            greeting: b"OK MPD 0.23.5\n".to_vec(),
            late_probe: false,
            max_steps: 64,
        }
    }
    pub fn to_json(&self) -> Value {
        json!({
            "name": self.name,
            "callers": self.callers.iter().map(|c| json!({"ops": c.ops.iter().map(|o| format!("{o:?}")).collect::<Vec<_>>(), "pipeline": c.pipeline})).collect::<Vec<_>>(),
            "notify_names": self.notify_names,
            "notify_budget": self.notify_budget,
            "split_budget": self.split_budget,
            "split_menu": format!("{:?}", self.split_menu),
            "cancel_budget": self.cancel_budget,
            "race_budget": self.race_budget,
            "order_flip_budget": self.order_flip_budget,

            "write_chunk": self.write_chunk,
            "lazy_server": self.lazy_server,
            "poll_events_at_end_only": self.poll_events_at_end_only,
            "stall_budget": self.stall_budget,
            "long_tick_budget": self.long_tick_budget,
            "initial_notifications": self.initial_notifications,
            "faults": self.faults.iter().map(|f| format!("{f:?}")).collect::<Vec<_>>(),
            "fault_budget": self.fault_budget,
            "tick_anywhere": self.tick_anywhere,
            "loose_tick_budget": self.loose_tick_budget,
            "drop_events_rx": self.drop_events_rx,
            "never_poll_events": self.never_poll_events,
            "fresh_clone_per_op": self.fresh_clone_per_op,
            "connect": format!("{:?}", self.connect),
            "late_probe": self.late_probe,
        })
    }
}

/// A harness event (one choice).
#[derive(Clone, Debug, PartialEq, Eq, Hash)]
pub enum Ev {
    Stop,
    /// lazy server only: process the next complete request line
    ServerStep,
    /// like Issue, but the idle `select!` polls the request queue before the connection in the
    /// poll that this event triggers (by default the connection is polled first)
    IssueQueueFirst(usize),
    DeliverAll,
    Deliver(usize),
    Issue(usize),
    Tick,
    HalfTick,
    /// an hour passes while the client waits for a reply (a slow server must only be slow)
    LongTick,
    /// the transport accepts k more bytes and then stalls (writes return Pending) until unstalled
    StallWrites(usize),
    UnstallWrites,
    Cancel(usize, usize),
    Notify(String),
    /// both branches of the idle `select!` become ready in the same poll: caller `caller` issues
    /// its next request and `k` more bytes (0 = all) become readable with no quiescence in
    /// between; `recv_first` = the select polls the connection before the request queue
    Race { caller: usize, k: usize, recv_first: bool },
    Close(usize),
    CloseRst(usize),
    ReadErr,
    ReadErrAfter(usize),
    WriteErr,
    Garbage,
    GarbageOpen,
    HugeBinary,
    DropHandles,
}

impl Ev {
    pub fn name(&self) -> String {
        match self {
            Ev::Stop => "Stop".into(),
            Ev::ServerStep => "ServerStep".into(),
            Ev::IssueQueueFirst(i) => format!("Issue({i},queue-polled-first)"),
            Ev::DeliverAll => "DeliverAll".into(),
            Ev::Deliver(k) => format!("Deliver({k})"),
            Ev::Issue(i) => format!("Issue({i})"),
            Ev::Tick => "Tick".into(),
            Ev::HalfTick => "HalfTick".into(),
            Ev::LongTick => "LongTick".into(),
            Ev::StallWrites(k) => format!("StallWrites({k})"),
            Ev::UnstallWrites => "UnstallWrites".into(),
            Ev::Cancel(i, j) => format!("Cancel({i},{j})"),
            Ev::Notify(n) => format!("Notify({n})"),
            Ev::Race { caller, k, recv_first } => format!(
                "Race(Issue({caller}),{},{})",
                if *k == 0 { "DeliverAll".to_string() } else { format!("Deliver({k})") },
                if *recv_first { "connection-polled-first" } else { "queue-polled-first" }
            ),
            Ev::Close(p) => format!("Close({p})"),
            Ev::CloseRst(p) => format!("CloseRst({p})"),
            Ev::ReadErr => "ReadErr".into(),
            Ev::ReadErrAfter(p) => format!("ReadErrAfter({p})"),
            Ev::WriteErr => "WriteErr".into(),
            Ev::Garbage => "Garbage".into(),
            Ev::GarbageOpen => "GarbageOpen".into(),
            Ev::HugeBinary => "HugeBinary".into(),
            Ev::DropHandles => "DropHandles".into(),
        }
    }
    pub fn is_fault(&self) -> bool {
        matches!(self, Ev::Close(_) | Ev::CloseRst(_) | Ev::ReadErr | Ev::ReadErrAfter(_) | Ev::WriteErr | Ev::Garbage | Ev::GarbageOpen | Ev::HugeBinary | Ev::DropHandles)
    }
}

// ---------------------------------------------------------------------------------------------
// Results in abstract form

#[derive(Clone, Debug, PartialEq, Eq)]
pub enum AErr {
    Closed,
    Protocol(String),
    ErrorResponse { error: AError, frames: Vec<AFrame> },
    InvalidTyped(String),
}

pub fn abs_proto_err(e: &MpdProtocolError) -> String {
    match e {
        MpdProtocolError::Io(e) => format!("Io({:?})", e.kind()),
        MpdProtocolError::InvalidMessage => "InvalidMessage".to_string(),
    }
}

pub fn abs_err(e: &CommandError) -> AErr {
    match e {
        CommandError::ConnectionClosed => AErr::Closed,
        CommandError::Protocol(p) => AErr::Protocol(abs_proto_err(p)),
        CommandError::ErrorResponse { error, succesful_frames } => AErr::ErrorResponse {
            error: observe_error(error),
            frames: succesful_frames.iter().map(observe_frame).collect(),
        },
        CommandError::InvalidTypedResponse(t) => AErr::InvalidTyped(t.to_string()),
    }
}

#[derive(Clone, Debug, PartialEq, Eq)]
pub enum OpOutcome {
    Frame(Result<AFrame, AErr>),
    Frames(Result<Vec<AFrame>, AErr>),
    Art(Result<Option<(Vec<u8>, Option<String>)>, AErr>),
    /// typed probe results: the number each decoded response carries
    Probes(Result<Vec<String>, AErr>),
}

impl OpOutcome {
    pub fn is_ok(&self) -> bool {
        matches!(self, OpOutcome::Frame(Ok(_)) | OpOutcome::Frames(Ok(_)) | OpOutcome::Art(Ok(_)) | OpOutcome::Probes(Ok(_)))
    }
    pub fn err(&self) -> Option<&AErr> {
        match self {
            OpOutcome::Frame(Err(e)) | OpOutcome::Frames(Err(e)) | OpOutcome::Art(Err(e)) | OpOutcome::Probes(Err(e)) => Some(e),
            _ => None,
        }
    }
    pub fn short(&self) -> String {
        let s = format!("{self:?}");
        if s.chars().count() > 300 {
            format!("{}…", s.chars().take(300).collect::<String>())
        } else {
            s
        }
    }
}

/// Typed probe command: `probe <i>`; the echo server answers `echo: probe <i>`.
#[derive(Clone, Debug)]
pub struct Probe(pub u32);

impl mpd_client::commands::Command for Probe {
    type Response = String;
    fn command(&self) -> RawCommand {
        RawCommand::new("probe").argument(self.0)
    }
    fn response(self, mut frame: mpd_client::protocol::response::Frame) -> Result<String, mpd_client::responses::TypedResponseError> {
        frame.get("echo").ok_or_else(|| mpd_client::responses::TypedResponseError::missing("echo"))
    }
}

pub fn raw_from_line(line: &str) -> RawCommand {
    let mut it = line.split(' ');
    let mut c = RawCommand::new(it.next().unwrap());
    for a in it {
        c = c.argument(a);
    }
    c
}

// ---------------------------------------------------------------------------------------------
// Execution

struct Flag(AtomicBool);
impl Wake for Flag {
    fn wake(self: Arc<Self>) {
        self.0.store(true, Ordering::SeqCst);
    }
    fn wake_by_ref(self: &Arc<Self>) {
        self.0.store(true, Ordering::SeqCst);
    }
}

type OpFut = Pin<Box<dyn Future<Output = OpOutcome>>>;

struct PendingOp {
    op_idx: usize,
    fut: OpFut,
    flag: Arc<Flag>,
}

#[derive(Clone, Debug)]
pub struct OpRecord {
    pub op: Op,
    pub issued_step: Option<usize>,
    /// global sequence number of the Issue event
    pub issue_seq: Option<usize>,
    pub outcome: Option<OpOutcome>,
    pub done_log_pos: Option<usize>,
    pub cancelled: bool,
    pub issued_after_fault: bool,
}

struct CallerState {
    prog: CallerProg,
    next: usize,
    pending: Vec<PendingOp>,
}

#[derive(Clone, Debug)]
pub struct Point {
    pub enabled: Vec<Ev>,
    pub chosen: usize,
    pub obs_hash: u64,
}

#[derive(Clone, Debug)]
pub struct EventObs {
    pub text: String,
    pub log_pos: usize,
}

pub struct Trace {
    pub points: Vec<Point>,
    pub log: Vec<Obs>,
    pub s2c: Vec<u8>,
    pub c2s: Vec<u8>,
    pub read_pos: usize,
    pub closed_at: Option<usize>,
    pub server: SimServer,
    pub ops: Vec<Vec<OpRecord>>,
    pub late_probe: Option<OpRecord>,
    pub events: Vec<EventObs>,
    pub events_ended: bool,
    pub connect_result: Option<Result<String, String>>,
    pub closed_flag: Option<bool>,
    pub io_dropped: bool,
    pub handles_dropped: bool,
    pub fault: Option<(Ev, usize)>,
    pub saw_eof: bool,
    pub saw_read_err: bool,
    pub saw_write_err: bool,
    pub read_pos_at_write: Vec<(usize, usize, usize)>,
    pub machinery: Vec<String>,
    /// Race events: (order asked for, order observed); true = connection branch polled first
    pub race_orders: Vec<(bool, bool)>,
    pub visible_states: Vec<u64>,
    pub hit_step_cap: bool,
    pub pending_at_end: usize,
    pub elapsed_ms: u128,
    pub ticks_ms: u128,
}

impl Trace {
    /// what the client can observe / does, up to the drain: the stream of bytes it read, the stream
    /// it wrote, and the order of completions and events relative to those streams
    pub fn projection_hash(&self) -> u64 {
        let mut items: Vec<String> = Vec::new();
        let mut rh = 0u64;
        let mut r = String::new();
        let mut wlen = 0usize;
        for o in &self.log {
            match o {
                Obs::Drain => break,
                Obs::Read(b) => {
                    // content matters, chunking does not: fold the bytes into a running hash
                    for x in b {
                        rh = (rh ^ *x as u64).wrapping_mul(0x100000001b3);
                    }
                    r = format!("{rh:x}");
                }
                Obs::Write(b) => {
                    wlen += b.len();
                    items.push(format!("W{}@r{}", show_bytes(b), r));
                }
                Obs::Done { caller, op, result } => items.push(format!("D{caller}.{op}={result}@r{r}w{wlen}")),
                Obs::Event(e) => items.push(format!("E{e}@r{r}w{wlen}")),
                Obs::ReadEof | Obs::ReadErr | Obs::WriteErr | Obs::EventsEnded | Obs::IoDropped => items.push(format!("{o:?}")),
                _ => {}
            }
        }
        hash64(&items)
    }

    pub fn choice_names(&self) -> Vec<String> {
        self.points.iter().map(|p| p.enabled[p.chosen].name()).collect()
    }
    pub fn deviations(&self) -> usize {
        self.points.iter().filter(|p| p.chosen != 0).count()
    }
    pub fn render_log(&self) -> Vec<String> {
        self.log
            .iter()
            .map(|o| match o {
                Obs::Ev { step, name, .. } => format!("== step {step}: {name}"),
                Obs::Write(b) => format!("   client writes  {}", show_bytes(b)),
                Obs::Read(b) => format!("   client reads   {}", show_bytes(&b[..b.len().min(120)])),
                Obs::ReadEof => "   client reads   <EOF>".into(),
                Obs::ReadErr => "   client reads   <error>".into(),
                Obs::WriteErr => "   client write   <error>".into(),
                Obs::Connected(v) => format!("   connect -> Ok(version {v})"),
                Obs::ConnectFailed(e) => format!("   connect -> Err({e})"),
                Obs::Done { caller, op, result } => format!("   caller {caller} op {op} -> {result}"),
                Obs::Event(e) => format!("   event: {e}"),
                Obs::EventsEnded => "   event stream ended".into(),
                Obs::IoDropped => "   transport dropped".into(),
                Obs::Drain => "== drain".into(),
            })
            .collect()
    }
    pub fn case_json(&self, scn: &Scenario) -> Value {
        json!({
            "engine": "loopmc",
            "scenario": scn.to_json(),
            "choices": self.choice_names(),
            "log": self.render_log(),
        })
    }
}

pub trait Chooser {
    /// `None` = abort the run (replay divergence); otherwise an index into `enabled`.
    fn choose(&mut self, step: usize, enabled: &[Ev], obs_hash: u64) -> Result<usize, String>;
}

/// Replays a prefix of choice indices (checking recorded hashes), then takes the default.
pub struct PrefixChooser<'a> {
    pub prefix: &'a [(usize, u64, u64)], // (choice, enabled_hash, obs_hash)
}

impl Chooser for PrefixChooser<'_> {
    fn choose(&mut self, step: usize, enabled: &[Ev], obs_hash: u64) -> Result<usize, String> {
        if let Some(&(c, eh, oh)) = self.prefix.get(step) {
            let h = hash64(enabled);
            if h != eh || oh != obs_hash {
                return Err(format!(
                    "nondeterminism: replaying step {step} the enabled set / observations differ from the recorded ones (enabled-set-differs={}, observations-differ={}, enabled {:?}, prefix choice indices {:?})",
                    h != eh,
                    oh != obs_hash,
                    enabled.iter().map(|e| e.name()).collect::<Vec<_>>(),
                    self.prefix.iter().map(|p| p.0).collect::<Vec<_>>()
                ));
            }
            if c >= enabled.len() {
                return Err(format!("replay choice {c} out of range at step {step}"));
            }
            Ok(c)
        } else {
            Ok(0)
        }
    }
}

/// Replays a list of choice indices (debugging aid); after the list, defaults.
pub struct IndexChooser {
    pub idx: Vec<usize>,
}

impl Chooser for IndexChooser {
    fn choose(&mut self, step: usize, enabled: &[Ev], _obs_hash: u64) -> Result<usize, String> {
        Ok(self.idx.get(step).copied().unwrap_or(0).min(enabled.len() - 1))
    }
}

/// Replays a list of event names; after the list, defaults.
pub struct NameChooser {
    pub names: Vec<String>,
    pub cursor: usize,
    pub repeats: usize,
}

impl Chooser for NameChooser {
    fn choose(&mut self, _step: usize, enabled: &[Ev], _obs_hash: u64) -> Result<usize, String> {
        // the list may or may not spell out the poll-order pseudo choices
        loop {
            let Some(n) = self.names.get(self.cursor) else { return Ok(0) };
            if n == "Tick*" {
                // directed scripts: "let time pass until the re-idle timer cannot be running any
                // more" - however long the delay is (Tick is only offered while it may run)
                if let Some(i) = enabled.iter().position(|e| *e == Ev::Tick) {
                    self.repeats += 1;
                    if self.repeats > 200 {
                        return Err("replay: Tick* did not come to an end within 200 ticks".into());
                    }
                    return Ok(i);
                }
                self.repeats = 0;
                self.cursor += 1;
                continue;
            }
            // `Name?`: take the event if it is enabled, otherwise go on with the script
            if let Some(opt) = n.strip_suffix('?') {
                self.cursor += 1;
                match enabled.iter().position(|e| e.name() == opt) {
                    Some(i) => return Ok(i),
                    None => continue,
                }
            }
            return match enabled.iter().position(|e| &e.name() == n) {
                Some(i) => {
                    self.cursor += 1;
                    Ok(i)
                }
                None => Err(format!(
                    "replay diverged at choice {}: {n} is not enabled; enabled = {:?}",
                    self.cursor,
                    enabled.iter().map(|e| e.name()).collect::<Vec<_>>()
                )),
            };
        }
    }
}

struct World {
    scn: Scenario,
    shared: Arc<Mutex<Shared>>,
    client: Option<Client>,
    events_rx: Option<ConnectionEvents>,
    /// one long-lived handle per caller
    handles: Vec<Arc<Client>>,
    connect_fut: Option<(Pin<Box<dyn Future<Output = Result<(Client, ConnectionEvents), String>>>>, Arc<Flag>)>,
    connect_result: Option<Result<String, String>>,
    callers: Vec<CallerState>,
    ops: Vec<Vec<OpRecord>>,
    issue_seq: usize,
    events: Vec<EventObs>,
    events_ended: bool,
    splits_used: usize,
    notifies_used: usize,
    cancels_used: usize,
    races_used: usize,
    flips_used: usize,
    stalls_used: usize,
    long_ticks_used: usize,
    rng_pos: usize,
    draining: bool,
    faults_used: usize,
    loose_ticks_used: usize,
    fault: Option<(Ev, usize)>,
    handles_dropped: bool,
    harness_activity: u64,
    ticks: Duration,
    step: usize,
    machinery: Vec<String>,
}

fn make_op_future(c: Arc<Client>, op: &Op) -> OpFut {
    match op.clone() {
        Op::Raw(line) => Box::pin(async move {
            let r = c.raw_command(raw_from_line(&line)).await;
            OpOutcome::Frame(r.map(|f| observe_frame(&f)).map_err(|e| abs_err(&e)))
        }),
        Op::RawList(lines) => Box::pin(async move {
            let mut it = lines.iter();
            let mut l = RawCommandList::new(raw_from_line(it.next().unwrap()));
            for x in it {
                l.add(raw_from_line(x));
            }
            let r = c.raw_command_list(l).await;
            OpOutcome::Frames(r.map(|fs| fs.iter().map(observe_frame).collect()).map_err(|e| abs_err(&e)))
        }),
        Op::AlbumArt(uri) => Box::pin(async move {
            let r = c.album_art(&uri).await;
            OpOutcome::Art(r.map(|o| o.map(|(b, m)| (b.to_vec(), m))).map_err(|e| abs_err(&e)))
        }),
        Op::ProbeSingle(i) => Box::pin(async move {
            let r = c.command(Probe(i)).await;
            OpOutcome::Probes(r.map(|s| vec![s]).map_err(|e| abs_err(&e)))
        }),
        Op::MixedList => Box::pin(async move {
            use mpd_client::commands::AlbumArtEmbedded as Pic;
            let art = |a: Option<mpd_client::responses::AlbumArt>| describe_art(a.as_ref().map(|a| (&a.data[..], a.mime.as_deref())));
            let r = c.command_list((Probe(1), Pic::new("pa"), Probe(2), Pic::new("pb"), Pic::new("nothing"), Probe(3))).await;
            OpOutcome::Probes(r.map(|t| vec![t.0, art(t.1), t.2, art(t.3), art(t.4), t.5]).map_err(|e| abs_err(&e)))
        }),
        Op::ProbeVec(ids) => Box::pin(async move {
            let list: Vec<Probe> = ids.iter().map(|i| Probe(*i)).collect();
            let r = c.command_list(list).await;
            OpOutcome::Probes(r.map_err(|e| abs_err(&e)))
        }),
        Op::ProbeTuple(ids) => Box::pin(async move {
            let p = |k: usize| Probe(ids[k]);
            let r: Result<Vec<String>, CommandError> = match ids.len() {
                1 => c.command_list((p(0),)).await.map(|t| vec![t.0]),
                2 => c.command_list((p(0), p(1))).await.map(|t| vec![t.0, t.1]),
                3 => c.command_list((p(0), p(1), p(2))).await.map(|t| vec![t.0, t.1, t.2]),
                4 => c.command_list((p(0), p(1), p(2), p(3))).await.map(|t| vec![t.0, t.1, t.2, t.3]),
                5 => c.command_list((p(0), p(1), p(2), p(3), p(4))).await.map(|t| vec![t.0, t.1, t.2, t.3, t.4]),
                6 => c.command_list((p(0), p(1), p(2), p(3), p(4), p(5))).await.map(|t| vec![t.0, t.1, t.2, t.3, t.4, t.5]),
                7 => c
                    .command_list((p(0), p(1), p(2), p(3), p(4), p(5), p(6)))
                    .await
                    .map(|t| vec![t.0, t.1, t.2, t.3, t.4, t.5, t.6]),
                8 => c
                    .command_list((p(0), p(1), p(2), p(3), p(4), p(5), p(6), p(7)))
                    .await
                    .map(|t| vec![t.0, t.1, t.2, t.3, t.4, t.5, t.6, t.7]),
                n => panic!("unsupported tuple arity {n}"),
            };
            OpOutcome::Probes(r.map_err(|e| abs_err(&e)))
        }),
    }
}

fn describe_event(e: &ConnectionEvent) -> String {
    match e {
        ConnectionEvent::SubsystemChange(s) => format!("changed:{}", s.as_str()),
        ConnectionEvent::ConnectionClosed(err) => {
            let inner = match err {
                mpd_client::client::ConnectionError::Protocol(p) => format!("Protocol({})", abs_proto_err(p)),
                mpd_client::client::ConnectionError::InvalidResponse => "InvalidResponse".to_string(),
            };
            format!("closed:{inner}")
        }
    }
}

impl World {
    fn sh(&self) -> std::sync::MutexGuard<'_, Shared> {
        self.shared.lock().unwrap()
    }

    fn log(&self, o: Obs) {
        self.sh().log.push(o);
    }

    fn obs_hash(&self) -> u64 {
        // the log is append-only: fold the new entries into a running hash
        let mut guard = self.sh();
        let s = &mut *guard;
        while s.obs_hashed < s.log.len() {
            s.obs_running = hash64(&(s.obs_running, &s.log[s.obs_hashed]));
            s.obs_hashed += 1;
        }
        s.obs_running
    }

    fn poll_connect(&mut self) {
        let Some((fut, flag)) = &mut self.connect_fut else { return };
        if !flag.0.swap(false, Ordering::SeqCst) {
            return;
        }
        let waker = Waker::from(flag.clone());
        let mut cx = Context::from_waker(&waker);
        if let Poll::Ready(r) = fut.as_mut().poll(&mut cx) {
            self.harness_activity += 1;
            self.connect_fut = None;
            match r {
                Ok((client, events)) => {
                    let v = client.protocol_version().to_string();
                    self.log(Obs::Connected(v.clone()));
                    self.connect_result = Some(Ok(v));
                    self.handles = self.callers.iter().map(|_| Arc::new(client.clone())).collect();
                    self.client = Some(client);
                    if self.scn.drop_events_rx {
                        drop(events);
                    } else {
                        self.events_rx = Some(events);
                    }
                }
                Err(e) => {
                    self.log(Obs::ConnectFailed(e.clone()));
                    self.connect_result = Some(Err(e));
                }
            }
        }
    }

    fn poll_callers(&mut self) {
        for ci in 0..self.callers.len() {
            let mut k = 0;
            while k < self.callers[ci].pending.len() {
                let p = &mut self.callers[ci].pending[k];
                if !p.flag.0.swap(false, Ordering::SeqCst) {
                    k += 1;
                    continue;
                }
                let waker = Waker::from(p.flag.clone());
                let mut cx = Context::from_waker(&waker);
                match p.fut.as_mut().poll(&mut cx) {
                    Poll::Ready(out) => {
                        self.harness_activity += 1;
                        let op_idx = p.op_idx;
                        let pos = {
                            let mut s = self.shared.lock().unwrap();
                            s.log.push(Obs::Done { caller: ci, op: op_idx, result: out.short() });
                            s.log.len() - 1
                        };
                        let rec = &mut self.ops[ci][op_idx];
                        rec.outcome = Some(out);
                        rec.done_log_pos = Some(pos);
                        self.callers[ci].pending.remove(k);
                    }
                    Poll::Pending => k += 1,
                }
            }
        }
    }

    fn poll_events(&mut self) {
        if self.events_ended || self.scn.never_poll_events || (self.scn.poll_events_at_end_only && !self.draining) {
            return;
        }
        let Some(rx) = &mut self.events_rx else { return };
        loop {
            let waker = noop_waker();
            let mut cx = Context::from_waker(&waker);
            let r = {
                let mut fut = std::pin::pin!(rx.next());
                fut.as_mut().poll(&mut cx)
            };
            match r {
                Poll::Ready(Some(e)) => {
                    self.harness_activity += 1;
                    let text = describe_event(&e);
                    let mut s = self.shared.lock().unwrap();
                    s.log.push(Obs::Event(text.clone()));
                    let pos = s.log.len() - 1;
                    drop(s);
                    self.events.push(EventObs { text, log_pos: pos });
                }
                Poll::Ready(None) => {
                    self.harness_activity += 1;
                    self.events_ended = true;
                    self.shared.lock().unwrap().log.push(Obs::EventsEnded);
                    return;
                }
                Poll::Pending => return,
            }
        }
    }

    async fn settle(&mut self) {
        let mut quiet = 0;
        let mut rounds = 0;
        while quiet < 3 {
            let before = self.sh().activity + self.harness_activity;
            tokio::task::yield_now().await;
            self.poll_connect();
            self.poll_callers();
            self.poll_events();
            let after = self.sh().activity + self.harness_activity;
            if after == before {
                quiet += 1;
            } else {
                quiet = 0;
            }
            rounds += 1;
            if rounds > 100_000 {
                self.machinery.push("settle did not reach quiescence within 100000 rounds (livelock?)".into());
                break;
            }
        }
    }

    /// Learn where the runtime's generator stands (selects polled since the last event have drawn
    /// from it) by drawing one value and locating it in the known sequence.
    fn rng_sync(&mut self) {
        let table = rng_table();
        let v = tokio::macros::support::thread_rng_n(u32::MAX);
        let from = self.rng_pos;
        for p in from..(from + 20_000).min(table.len()) {
            if table[p] == v {
                self.rng_pos = p + 1;
                return;
            }
        }
        self.machinery.push(format!("cannot locate the runtime's random generator in its known sequence (from position {from})"));
    }

    /// Burn values until the next draw of the loop's idle `select!` (connection branch first, queue
    /// branch second, possibly further branches: `SELECT_BRANCHES`, calibrated) starts polling at the
    /// queue branch (`queue_first`) resp. at the connection branch.
    fn rng_align(&mut self, queue_first: bool) {
        let table = rng_table();
        let n = SELECT_BRANCHES.load(Ordering::Relaxed) as u64;
        // thread_rng_n(u32::MAX) = raw - 1; a select! with n branches starts at (raw * n) >> 32
        let start = |v: u32| (v.wrapping_add(1) as u64 * n) >> 32;
        let wanted = if queue_first { 1 } else { 0 };
        let mut guard = 0;
        while self.rng_pos < table.len() && start(table[self.rng_pos]) != wanted {
            let _ = tokio::macros::support::thread_rng_n(2);
            self.rng_pos += 1;
            guard += 1;
            if guard > 1000 {
                break;
            }
        }
    }

    /// lazy server: process everything the client has written so far
    fn flush_inbox(&self) {
        let mut guard = self.sh();
        let s = &mut *guard;
        if s.lazy && !s.inbox.is_empty() && s.closed_at.is_none() {
            let bytes = std::mem::take(&mut s.inbox);
            s.server.feed(&bytes, &mut s.s2c);
        }
    }

    fn last_client_line(&self) -> Option<Vec<u8>> {
        let s = self.sh();
        let c = &s.c2s;
        if c.is_empty() {
            return None;
        }
        let end = if c.last() == Some(&b'\n') { c.len() - 1 } else { return Some(b"<partial>".to_vec()) };
        let start = c[..end].iter().rposition(|&b| b == b'\n').map(|p| p + 1).unwrap_or(0);
        Some(c[start..end].to_vec())
    }

    /// timer possibly running: the client's last line is a request and it has read everything
    fn strict_tick(&self) -> bool {
        let last = self.last_client_line();
        let s = self.sh();
        match last {
            Some(l) if l != b"idle" && l != b"noidle" && !l.starts_with(b"password") => s.read_pos >= s.visible_len() && !s.server.in_list(),
            _ => false,
        }
    }

    fn split_points(&self) -> Vec<usize> {
        let s = self.sh();
        let start = s.delivered;
        let end = s.visible_len();
        if end <= start + 1 {
            return vec![];
        }
        let und = &s.s2c[start..end];
        let n = und.len();
        match self.scn.split_menu {
            SplitMenu::Bytes => (1..n).collect(),
            SplitMenu::Lines => {
                let mut v: Vec<usize> = vec![1, n - 1];
                for (i, &b) in und.iter().enumerate() {
                    if b == b'\n' && i + 1 < n {
                        v.push(i + 1);
                    }
                }
                v.sort();
                v.dedup();
                v.retain(|&k| k >= 1 && k < n);
                v
            }
        }
    }

    fn connected(&self) -> bool {
        self.client.is_some()
    }

    fn handle_for(&self, caller: usize) -> Arc<Client> {
        if self.scn.fresh_clone_per_op {
            Arc::new(self.client.as_ref().unwrap().clone())
        } else {
            self.handles[caller].clone()
        }
    }

    fn enabled(&self) -> Vec<Ev> {
        let (undelivered, dead) = {
            let s = self.sh();
            (s.visible_len().saturating_sub(s.delivered), s.server.dead)
        };
        let mut defaults: Vec<Ev> = Vec::new();
        let mut alts: Vec<Ev> = Vec::new();
        if self.sh().inbox.contains(&b'\n') {
            defaults.push(Ev::ServerStep);
        }
        if undelivered > 0 {
            defaults.push(Ev::DeliverAll);
            if self.splits_used < self.scn.split_budget {
                for k in self.split_points() {
                    alts.push(Ev::Deliver(k));
                }
            }
        }
        if self.connected() && !self.handles_dropped {
            for (i, c) in self.callers.iter().enumerate() {
                if c.next < c.prog.ops.len() && (c.prog.pipeline || c.pending.is_empty()) {
                    defaults.push(Ev::Issue(i));
                }
            }
        }
        let strict = self.strict_tick();
        let stalled = self.sh().write_stall.is_some();
        if stalled {
            defaults.push(Ev::UnstallWrites);
        } else if self.stalls_used < self.scn.stall_budget && self.connected() && self.fault.is_none() {
            alts.push(Ev::StallWrites(0));
            alts.push(Ev::StallWrites(2));
        }
        if self.connected() && !strict && self.long_ticks_used < self.scn.long_tick_budget && self.fault.is_none() {
            // the client is waiting for the reply to something it wrote
            let last = self.last_client_line();
            // ... or it idles while (part of) an idle reply is still on its way: a periodic timer in
            // the idle state (keep-alive, refresh) would fire into exactly that window
            if matches!(last.as_deref(), Some(l) if l != b"<partial>" && (l != b"idle" || undelivered > 0)) {
                alts.push(Ev::LongTick);
            }
        }
        if self.connected() {
            if strict {
                defaults.push(Ev::Tick);
            } else if (self.scn.tick_anywhere || self.fault.is_some()) && self.loose_ticks_used < self.scn.loose_tick_budget {
                alts.push(Ev::Tick);
            }
            if self.scn.tick_anywhere && strict {
                alts.push(Ev::HalfTick);
            }
        }
        // (not after a fault: EOF / garbage / errors stay readable, so the select after the raced
        // one would have both branches ready again and its order is not pinned)
        if self.races_used < self.scn.race_budget && self.fault.is_none() && undelivered > 0 && self.connected() && !self.handles_dropped && self.last_client_line().as_deref() == Some(&b"idle"[..]) {
            let mut ks = vec![0usize];
            if self.splits_used < self.scn.split_budget {
                ks.extend(self.split_points());
            }
            for (i, c) in self.callers.iter().enumerate() {
                // (an empty typed list queues nothing - C13 - so it cannot race with anything)
                let queues_nothing = matches!(c.prog.ops.get(c.next), Some(Op::ProbeVec(v)) if v.is_empty());
                if c.next < c.prog.ops.len() && (c.prog.pipeline || c.pending.is_empty()) && !queues_nothing {
                    for &k in &ks {
                        for recv_first in [true, false] {
                            alts.push(Ev::Race { caller: i, k, recv_first });
                        }
                    }
                }
            }
        }
        // a request that reaches the idle select while only the queue branch is ready: polling the
        // (pending) connection branch first must not matter, nor must skipping it
        if self.flips_used < self.scn.order_flip_budget && self.connected() && !self.handles_dropped && self.fault.is_none() && self.last_client_line().as_deref() == Some(&b"idle"[..]) {
            for (i, c) in self.callers.iter().enumerate() {
                if c.next < c.prog.ops.len() && (c.prog.pipeline || c.pending.is_empty()) {
                    alts.push(Ev::IssueQueueFirst(i));
                }
            }
        }
        if self.cancels_used < self.scn.cancel_budget {
            for (i, c) in self.callers.iter().enumerate() {
                for p in &c.pending {
                    alts.push(Ev::Cancel(i, p.op_idx));
                }
            }
        }
        if self.notifies_used < self.scn.notify_budget && !dead && self.sh().closed_at.is_none() {
            for n in &self.scn.notify_names {
                alts.push(Ev::Notify((*n).to_string()));
            }
        }
        if self.faults_used < self.scn.fault_budget {
            for f in &self.scn.faults {
                match f {
                    FaultKind::Close => {
                        let und = undelivered;
                        match self.scn.split_menu {
                            SplitMenu::Bytes => {
                                for p in 0..=und {
                                    alts.push(Ev::Close(p));
                                }
                            }
                            SplitMenu::Lines => {
                                let mut v = vec![0, und];
                                v.extend(self.split_points());
                                v.sort();
                                v.dedup();
                                for p in v {
                                    alts.push(Ev::Close(p));
                                }
                            }
                        }
                    }
                    FaultKind::CloseRst => {
                        let mut v = vec![0, undelivered];
                        v.extend(self.split_points());
                        v.sort();
                        v.dedup();
                        for p in v {
                            alts.push(Ev::CloseRst(p));
                        }
                    }
                    FaultKind::ReadErr => alts.push(Ev::ReadErr),
                    FaultKind::ReadErrAfter => {
                        // (p = 0 would be ReadErr with nothing in flight; with bytes in flight it differs: they stay readable)
                        let mut v = vec![undelivered];
                        v.extend(self.split_points());
                        v.sort();
                        v.dedup();
                        for p in v.into_iter().filter(|&p| p > 0) {
                            alts.push(Ev::ReadErrAfter(p));
                        }
                    }
                    FaultKind::WriteErr => alts.push(Ev::WriteErr),
                    FaultKind::Garbage => alts.push(Ev::Garbage),
                    FaultKind::GarbageOpen => alts.push(Ev::GarbageOpen),
                    FaultKind::HugeBinary => alts.push(Ev::HugeBinary),
                    FaultKind::DropHandles => {
                        if self.connected() && !self.handles_dropped && self.callers.iter().all(|c| c.pending.is_empty()) {
                            alts.push(Ev::DropHandles);
                        }
                    }
                }
            }
        }
        // canonical order: the default first, then the other default-able events, then alternatives
        let mut out = Vec::new();
        if defaults.is_empty() {
            out.push(Ev::Stop);
        }
        out.extend(defaults);
        out.extend(alts);
        out
    }

    fn visible_state_hash(&self) -> u64 {
        let last_line = self.last_client_line();
        let s = self.sh();
        let callers: Vec<(usize, usize)> = self.callers.iter().map(|c| (c.next, c.pending.len())).collect();
        hash64(&(
            s.server.idle_waiting,
            s.server.pending_count(),
            s.server.dead,
            s.visible_len() - s.delivered.min(s.visible_len()),
            s.delivered.saturating_sub(s.read_pos),
            last_line,
            callers,
            (self.events.len(), self.events_ended, s.closed_at.is_some(), s.read_err, s.write_err, self.handles_dropped),
        ))
    }

    async fn apply(&mut self, ev: &Ev) {
        match ev {
            Ev::Stop => {}
            Ev::ServerStep => {
                let mut guard = self.sh();
                let s = &mut *guard;
                if let Some(p) = s.inbox.iter().position(|&b| b == b'\n') {
                    let line: Vec<u8> = s.inbox.drain(..=p).collect();
                    if s.closed_at.is_none() {
                        s.server.feed(&line, &mut s.s2c);
                    }
                }
            }
            Ev::DeliverAll => {
                let mut s = self.sh();
                s.delivered = s.visible_len();
                s.wake_reader();
            }
            Ev::Deliver(k) => {
                self.splits_used += 1;
                let mut s = self.sh();
                s.delivered = (s.delivered + k).min(s.visible_len());
                s.wake_reader();
            }
            Ev::Issue(i) | Ev::IssueQueueFirst(i) => {
                if matches!(ev, Ev::IssueQueueFirst(_)) {
                    self.flips_used += 1;
                }
                let i = *i;
                let op_idx = self.callers[i].next;
                self.callers[i].next += 1;
                let op = self.callers[i].prog.ops[op_idx].clone();
                let fut = make_op_future(self.handle_for(i), &op);
                let flag = Arc::new(Flag(AtomicBool::new(true)));
                self.ops[i][op_idx].issued_step = Some(self.step);
                self.ops[i][op_idx].issue_seq = Some(self.issue_seq);
                self.ops[i][op_idx].issued_after_fault = self.fault.is_some();
                self.issue_seq += 1;
                self.callers[i].pending.push(PendingOp { op_idx, fut, flag });
                // first poll performs the channel send
                self.poll_callers();
            }
            Ev::Tick => {
                if !self.strict_tick() {
                    self.loose_ticks_used += 1;
                }
                self.ticks += Duration::from_millis(100);
                tokio::time::advance(Duration::from_millis(100)).await;
            }
            Ev::LongTick => {
                self.long_ticks_used += 1;
                self.ticks += Duration::from_secs(3600);
                tokio::time::advance(Duration::from_secs(3600)).await;
            }
            Ev::StallWrites(k) => {
                self.stalls_used += 1;
                self.sh().write_stall = Some(*k);
            }
            Ev::UnstallWrites => {
                let mut s = self.sh();
                s.write_stall = None;
                if let Some(w) = s.write_waker.take() {
                    w.wake();
                }
            }
            Ev::HalfTick => {
                self.ticks += Duration::from_millis(50);
                tokio::time::advance(Duration::from_millis(50)).await;
            }
            Ev::Cancel(i, op_idx) => {
                self.cancels_used += 1;
                let c = &mut self.callers[*i];
                if let Some(k) = c.pending.iter().position(|p| p.op_idx == *op_idx) {
                    let p = c.pending.remove(k);
                    drop(p);
                    self.ops[*i][*op_idx].cancelled = true;
                }
            }
            Ev::Race { caller, k, .. } => {
                self.races_used += 1;
                // queue the request (first poll of the caller future performs the channel send) …
                let i = *caller;
                let op_idx = self.callers[i].next;
                self.callers[i].next += 1;
                let op = self.callers[i].prog.ops[op_idx].clone();
                let fut = make_op_future(self.handle_for(i), &op);
                let flag = Arc::new(Flag(AtomicBool::new(true)));
                self.ops[i][op_idx].issued_step = Some(self.step);
                self.ops[i][op_idx].issue_seq = Some(self.issue_seq);
                self.ops[i][op_idx].issued_after_fault = self.fault.is_some();
                self.issue_seq += 1;
                self.callers[i].pending.push(PendingOp { op_idx, fut, flag });
                self.poll_callers();
                // … and make the bytes readable before the loop task gets to run
                let mut s = self.sh();
                if *k == 0 {
                    s.delivered = s.visible_len();
                } else {
                    drop(s);
                    self.splits_used += 1;
                    s = self.sh();
                    s.delivered = (s.delivered + k).min(s.visible_len());
                }
                s.wake_reader();
            }
            Ev::Notify(name) => {
                self.notifies_used += 1;
                let mut guard = self.sh();
                let s = &mut *guard;
                s.server.notify(name, &mut s.s2c);
            }
            Ev::Close(p) => {
                self.faults_used += 1;
                self.fault = Some((ev.clone(), self.step));
                let mut s = self.sh();
                let end = (s.delivered + p).min(s.s2c.len());
                s.s2c.truncate(end);
                s.closed_at = Some(end);
                s.server.dead = true;
                s.wake_reader();
            }
            Ev::CloseRst(p) => {
                self.faults_used += 1;
                self.fault = Some((ev.clone(), self.step));
                let mut s = self.sh();
                let end = (s.delivered + p).min(s.s2c.len());
                s.s2c.truncate(end);
                s.closed_at = Some(end);
                s.server.dead = true;
                s.write_err = true;
                s.wake_reader();
            }
            Ev::ReadErr => {
                self.faults_used += 1;
                self.fault = Some((ev.clone(), self.step));
                let mut s = self.sh();
                s.read_err = true;
                s.wake_reader();
            }
            Ev::ReadErrAfter(p) => {
                self.faults_used += 1;
                self.fault = Some((ev.clone(), self.step));
                let mut s = self.sh();
                let end = (s.delivered + p).min(s.s2c.len());
                s.s2c.truncate(end);
                // the bytes in front of the failure and the failure arrive together
                s.delivered = end;
                s.read_err_at = Some(end);
                s.server.dead = true;
                s.wake_reader();
            }
            Ev::WriteErr => {
                self.faults_used += 1;
                self.fault = Some((ev.clone(), self.step));
                self.sh().write_err = true;
            }
            Ev::Garbage => {
                self.faults_used += 1;
                self.fault = Some((ev.clone(), self.step));
                let mut s = self.sh();
                s.s2c.extend_from_slice(b"garbage !!\n");
                s.server.dead = true;
            }
            Ev::HugeBinary => {
                self.faults_used += 1;
                self.fault = Some((ev.clone(), self.step));
                let mut s = self.sh();
                s.s2c.extend_from_slice(HUGE_BINARY);
                let end = s.s2c.len();
                s.closed_at = Some(end);
                s.server.dead = true;
                s.wake_reader();
            }
            Ev::GarbageOpen => {
                // bytes that cannot begin any protocol line; no line end follows and the peer stays
                // connected but silent
                self.faults_used += 1;
                self.fault = Some((ev.clone(), self.step));
                let mut s = self.sh();
                s.s2c.extend_from_slice(GARBAGE_OPEN);
                s.server.dead = true;
            }
            Ev::DropHandles => {
                self.faults_used += 1;
                self.fault = Some((ev.clone(), self.step));
                self.handles_dropped = true;
                self.handles.clear();
                self.client = None;
            }
        }
    }
}

pub const GARBAGE_OPEN: &[u8] = b"\x00\xff";
pub const HUGE_BINARY: &[u8] = b"binary: 18446744073709551615\n";

/// number of branches of the loop's idle `select!` (2 at the pinned commit; calibrated by
/// `poll_order_mode`, so that a third branch - a timer, a shutdown signal - does not blind the engine)
pub static SELECT_BRANCHES: std::sync::atomic::AtomicU32 = std::sync::atomic::AtomicU32::new(2);
/// values drawn and thrown away at the start of an execution (0 outside the calibration)
static CALIBRATION_BURN: std::sync::atomic::AtomicU32 = std::sync::atomic::AtomicU32::new(0);

pub fn noop_waker() -> Waker {
    struct Noop;
    impl Wake for Noop {
        fn wake(self: Arc<Self>) {}
    }
    Waker::from(Arc::new(Noop))
}

pub const RACE_RETRY: &str = "RACE_RETRY";
pub static RACE_RETRIES: AtomicU64 = AtomicU64::new(0);

/// Every runtime of the harness is built with this seed, so the sequence of values that
/// `tokio::select!` draws (one per poll of a select) is the same known sequence in every execution.
pub const RNG_SEED: u64 = 0x5EED_0F_A11;

fn rt_with_seed(seed: u64) -> tokio::runtime::Runtime {
    tokio::runtime::Builder::new_current_thread()
        .enable_time()
        .start_paused(true)
        .rng_seed(tokio::runtime::RngSeed::from_bytes(&seed.to_le_bytes()))
        .build()
        .expect("runtime")
}

/// The generator's raw 32-bit outputs for RNG_SEED, learnt once from a probe runtime:
/// `thread_rng_n(n)` is `(raw * n) >> 32`, so `thread_rng_n(u32::MAX)` returns `raw - 1` (0 for raw
/// 0) and `thread_rng_n(2)` returns raw's top bit (0 = the select polls its first branch, the
/// connection, first; 1 = the request queue).
fn rng_table() -> &'static Vec<u32> {
    static TABLE: std::sync::OnceLock<Vec<u32>> = std::sync::OnceLock::new();
    TABLE.get_or_init(|| {
        let rt = rt_with_seed(RNG_SEED);
        rt.block_on(async { (0..400_000).map(|_| tokio::macros::support::thread_rng_n(u32::MAX)).collect() })
    })
}


/// Execute one schedule of `scn` on the real client. `tokio::select!` picks the branch it polls
/// first with a value drawn from the runtime's generator on every poll; the harness builds every
/// runtime with the same seed, knows the resulting sequence (`rng_table`), re-locates the
/// generator's position before every event (`rng_sync`) and burns values until the next draw is
/// the order it wants for the poll that the event triggers (`rng_align`). Executions are therefore
/// deterministic functions of their choice list, poll order included.
pub fn run_once(scn: &Scenario, chooser: &mut dyn Chooser) -> Result<Trace, String> {
    run_attempt(scn, chooser)
}

fn run_attempt(scn: &Scenario, chooser: &mut dyn Chooser) -> Result<Trace, String> {
    let _ = rng_table();
    let rt = rt_with_seed(RNG_SEED);
    let result = rt.block_on(run_async(scn, chooser));
    drop(rt);
    result
}

async fn run_async(scn: &Scenario, chooser: &mut dyn Chooser) -> Result<Trace, String> {
    let t0 = tokio::time::Instant::now();
    // calibration only: start from another position of the generator's sequence
    for _ in 0..CALIBRATION_BURN.load(Ordering::Relaxed) {
        let _ = tokio::macros::support::thread_rng_n(2);
    }
    let mut server = SimServer::new(scn.server.clone());
    let mut s2c = Vec::new();
    s2c.extend_from_slice(&scn.greeting);
    for n in &scn.initial_notifications {
        // the server is not idle yet: the change is remembered and reported by the first idle
        let mut sink = Vec::new();
        server.notify(n, &mut sink);
    }
    let _ = &mut server;
    let shared = Arc::new(Mutex::new(Shared {
        delivered: if scn.greeting_upfront { s2c.len() } else { 0 },
        s2c,
        read_pos: 0,
        read_waker: None,
        closed_at: None,
        read_err: false,
        read_err_at: None,
        write_err: false,
        c2s: Vec::new(),
        server,
        io_dropped: false,
        activity: 0,
        log: Vec::new(),
        saw_eof: false,
        saw_read_err: false,
        saw_write_err: false,
        read_pos_at_write: Vec::new(),
        obs_hashed: 0,
        obs_running: 0,
        greeting_len: scn.greeting.len(),
        write_chunk: scn.write_chunk,
        write_stall: None,
        write_waker: None,
        lazy: scn.lazy_server,
        inbox: Vec::new(),
    }));

    let io = MockIo(shared.clone());
    let mode = scn.connect.clone();
    let connect_fut: Pin<Box<dyn Future<Output = Result<(Client, ConnectionEvents), String>>>> = Box::pin(async move {
        match mode {
            ConnectMode::Plain => Client::connect(io).await.map_err(|e| abs_proto_err(&e)),
            ConnectMode::Password(p) => Client::connect_with_password(io, &p).await.map_err(|e| match e {
                ConnectWithPasswordError::IncorrectPassword => "IncorrectPassword".to_string(),
                ConnectWithPasswordError::ProtocolError(e) => abs_proto_err(&e),
            }),
            ConnectMode::PasswordOpt(p) => Client::connect_with_password_opt(io, p.as_deref()).await.map_err(|e| match e {
                ConnectWithPasswordError::IncorrectPassword => "IncorrectPassword".to_string(),
                ConnectWithPasswordError::ProtocolError(e) => abs_proto_err(&e),
            }),
        }
    });

    let mut w = World {
        scn: scn.clone(),
        shared: shared.clone(),
        client: None,
        events_rx: None,
        handles: Vec::new(),
        connect_fut: Some((connect_fut, Arc::new(Flag(AtomicBool::new(true))))),
        connect_result: None,
        callers: scn.callers.iter().map(|p| CallerState { prog: p.clone(), next: 0, pending: Vec::new() }).collect(),
        ops: scn
            .callers
            .iter()
            .map(|p| {
                p.ops
                    .iter()
                    .map(|o| OpRecord { op: o.clone(), issued_step: None, issue_seq: None, outcome: None, done_log_pos: None, cancelled: false, issued_after_fault: false })
                    .collect()
            })
            .collect(),
        issue_seq: 0,
        events: Vec::new(),
        events_ended: false,
        splits_used: 0,
        notifies_used: scn.initial_notifications.len(),
        cancels_used: 0,
        races_used: 0,
        flips_used: 0,
        stalls_used: 0,
        long_ticks_used: 0,
        rng_pos: 0,
        draining: false,
        faults_used: 0,
        loose_ticks_used: 0,
        fault: None,
        handles_dropped: false,
        harness_activity: 0,
        ticks: Duration::ZERO,
        step: 0,
        machinery: Vec::new(),
    };

    w.poll_connect();
    w.settle().await;

    let mut points: Vec<Point> = Vec::new();
    let mut visible_states = vec![w.visible_state_hash()];
    let mut hit_step_cap = false;
    let mut race_orders: Vec<(bool, bool)> = Vec::new();

    loop {
        if w.step >= scn.max_steps {
            hit_step_cap = true;
            break;
        }
        let enabled = w.enabled();
        let oh = w.obs_hash();
        let choice = chooser.choose(w.step, &enabled, oh)?;
        let ev = enabled[choice].clone();
        points.push(Point { enabled, chosen: choice, obs_hash: oh });
        if ev == Ev::Stop {
            break;
        }
        let strict = w.strict_tick();
        w.log(Obs::Ev { step: w.step, name: ev.name(), strict_tick: strict });
        let log_before = w.sh().log.len();
        // own select!'s branch order for the poll this event triggers
        let pos_before = w.rng_pos;
        w.rng_sync();
        let queue_first = matches!(ev, Ev::IssueQueueFirst(_) | Ev::Race { recv_first: false, .. });
        let pos_synced = w.rng_pos;
        w.rng_align(queue_first);
        if std::env::var_os("VERIF_DEBUG_RNG").is_some() {
            eprintln!("rng: before event {} position {} -> synced {} -> aligned {} (branches {})", ev.name(), pos_before, pos_synced, w.rng_pos, SELECT_BRANCHES.load(Ordering::Relaxed));
        }
        w.apply(&ev).await;
        w.settle().await;
        if let Ev::Race { recv_first, .. } = &ev {
            // which select branch was polled first? the connection branch reads, the queue branch
            // goes on to write `noidle`; whichever shows up first in the log tells
            let actual = w.sh().log[log_before..].iter().find_map(|o| match o {
                Obs::Read(_) | Obs::ReadEof | Obs::ReadErr => Some(true),
                Obs::Write(_) | Obs::WriteErr => Some(false),
                _ => None,
            });
            // None: the loop is not in its idle select any more (it ended after a fault): nothing raced
            if let Some(a) = actual {
                race_orders.push((*recv_first, a));
            }
        }
        visible_states.push(w.visible_state_hash());
        w.step += 1;
    }

    // ---- drain ---------------------------------------------------------------------------
    w.log(Obs::Drain);
    w.draining = true;
    {
        let mut s = w.sh();
        s.write_stall = None;
        if let Some(wk) = s.write_waker.take() {
            wk.wake();
        }
    }
    w.flush_inbox();
    {
        let mut s = w.sh();
        s.delivered = s.visible_len();
        s.wake_reader();
    }
    w.settle().await;
    let mut late_probe = None;
    // at least 3 ticks; then keep ticking (up to 6 s of virtual time) while a re-idle timer may
    // still be running, so that the length of the re-idle delay is not baked into the oracles
    for round in 0..60 {
        if round >= 3 {
            // after a fault the loop may sit in its re-idle window before it runs into the fault
            let waiting_for_exit = w.fault.is_some() && !w.sh().io_dropped && round < 30;
            // (a client whose loop has ended - transport dropped - will not write anything any more)
            if (!w.strict_tick() || w.sh().io_dropped) && !waiting_for_exit {
                break;
            }
        }
        if round == 0 && scn.late_probe {
            if let Some(c) = w.client.clone() {
                // a later request on a fresh handle
                w.callers.push(CallerState { prog: CallerProg { ops: vec![Op::Raw("late probe".into())], pipeline: false }, next: 0, pending: Vec::new() });
                w.ops.push(vec![OpRecord { op: Op::Raw("late probe".into()), issued_step: Some(w.step), issue_seq: Some(w.issue_seq), outcome: None, done_log_pos: None, cancelled: false, issued_after_fault: w.fault.is_some() }]);
                let ci = w.callers.len() - 1;
                let fut = make_op_future(Arc::new(c.clone()), &Op::Raw("late probe".into()));
                w.callers[ci].next = 1;
                w.callers[ci].pending.push(PendingOp { op_idx: 0, fut, flag: Arc::new(Flag(AtomicBool::new(true))) });
                w.log(Obs::Ev { step: w.step, name: "LateProbe".into(), strict_tick: false });
                w.poll_callers();
                w.settle().await;
                {
                    let mut s = w.sh();
                    s.delivered = s.visible_len();
                    s.wake_reader();
                }
                w.settle().await;
            }
        }
        let strict = w.strict_tick();
        w.log(Obs::Ev { step: w.step, name: "Tick".into(), strict_tick: strict });
        w.ticks += Duration::from_millis(100);
        tokio::time::advance(Duration::from_millis(100)).await;
        w.settle().await;
        for _ in 0..4 {
            w.flush_inbox();
            {
                let mut s = w.sh();
                s.delivered = s.visible_len();
                s.wake_reader();
            }
            w.settle().await;
        }
    }
    if scn.late_probe && w.ops.len() > scn.callers.len() {
        late_probe = Some(w.ops.pop().unwrap()[0].clone());
        let c = w.callers.pop().unwrap();
        if !c.pending.is_empty() {
            // still pending: record as such
            if let Some(lp) = &mut late_probe {
                lp.outcome = None;
            }
        }
        drop(c);
    }

    let elapsed = tokio::time::Instant::now().duration_since(t0);
    if elapsed != w.ticks {
        w.machinery.push(format!("clock moved on its own: elapsed {:?} but ticks sum to {:?}", elapsed, w.ticks));
    }
    let closed_flag = w.client.as_ref().map(|c| c.is_connection_closed());
    let pending_at_end: usize = w.callers.iter().map(|c| c.pending.len()).sum();
    let s = w.shared.lock().unwrap();
    let trace = Trace {
        points,
        log: s.log.clone(),
        s2c: s.s2c.clone(),
        c2s: s.c2s.clone(),
        read_pos: s.read_pos,
        closed_at: s.closed_at,
        server: s.server.clone(),
        ops: w.ops.clone(),
        late_probe,
        events: w.events.clone(),
        events_ended: w.events_ended,
        connect_result: w.connect_result.clone(),
        closed_flag,
        io_dropped: s.io_dropped,
        handles_dropped: w.handles_dropped,
        fault: w.fault.clone(),
        saw_eof: s.saw_eof,
        saw_read_err: s.saw_read_err,
        saw_write_err: s.saw_write_err,
        read_pos_at_write: s.read_pos_at_write.clone(),
        machinery: w.machinery.clone(),
        race_orders,
        visible_states,
        hit_step_cap,
        pending_at_end,
        elapsed_ms: elapsed.as_millis(),
        ticks_ms: w.ticks.as_millis(),
    };
    drop(s);
    Ok(trace)
}

// ---------------------------------------------------------------------------------------------
// Exploration

/// counters that make an execution count as non-trivial (once per execution)
pub const NONTRIVIAL_KEYS: &[&str] = &[
    "two_requests_outstanding",
    "issue_after_partial_delivery",
    "cancelled_ops",
    "executions_with_notifications",
    "noidle_changed_race",
    "reidle_windows_checked",
    "unclean_ends",
    "clean_ends",
    "typed_lists_checked",
    "album_art_loads_checked",
    "handshakes_checked",
];

#[derive(Default)]
pub struct ExploreStats {
    pub nontrivial: u64,
    pub cur_nontrivial: bool,
    pub executions: u64,
    pub transitions: u64,
    pub states: HashSet<u64>,
    pub final_transcripts: HashSet<u64>,
    /// client-observable traces (reads, writes, completions, events; harness events projected away)
    pub projections: HashSet<u64>,
    pub projection_examples: std::collections::HashMap<u64, Vec<String>>,
    pub max_depth: usize,
    pub by_deviation: BTreeMap<usize, u64>,
    pub counters: BTreeMap<String, u64>,
    pub viol: Violations,
    pub capped: bool,
    pub step_cap_hits: u64,
    /// violating executions re-executed from scratch by event name with identical log and verdict
    pub violations_replayed: u64,
    pub samples: Vec<Value>,
}

impl ExploreStats {
    pub fn merge(mut self, o: ExploreStats) -> ExploreStats {
        self.nontrivial += o.nontrivial;
        self.executions += o.executions;
        self.transitions += o.transitions;
        self.states.extend(o.states);
        self.final_transcripts.extend(o.final_transcripts);
        self.projections.extend(o.projections);
        for (k, v) in o.projection_examples {
            self.projection_examples.entry(k).or_insert(v);
        }
        self.max_depth = self.max_depth.max(o.max_depth);
        for (k, v) in o.by_deviation {
            *self.by_deviation.entry(k).or_default() += v;
        }
        for (k, v) in o.counters {
            *self.counters.entry(k).or_default() += v;
        }
        self.viol.merge(o.viol);
        self.capped |= o.capped;
        self.step_cap_hits += o.step_cap_hits;
        self.violations_replayed += o.violations_replayed;
        for s in o.samples {
            if self.samples.len() < 4 {
                self.samples.push(s);
            }
        }
        self
    }
    pub fn count(&mut self, k: &str) {
        *self.counters.entry(k.to_string()).or_default() += 1;
        if NONTRIVIAL_KEYS.contains(&k) {
            self.cur_nontrivial = true;
        }
    }
}

pub type Oracle = dyn Fn(&Scenario, &Trace, &mut ExploreStats) -> Vec<Violation> + Sync;

pub struct Budget {
    pub max_executions: u64,
    pub deadline: std::time::Instant,
}

static EXEC_COUNTER: AtomicU64 = AtomicU64::new(0);

fn process_trace(scn: &Scenario, t: &Trace, oracle: &Oracle, st: &mut ExploreStats) {
    st.executions += 1;
    st.transitions += t.points.len() as u64;
    st.max_depth = st.max_depth.max(t.points.len());
    *st.by_deviation.entry(t.deviations()).or_default() += 1;
    for h in &t.visible_states {
        st.states.insert(*h);
    }
    st.final_transcripts.insert(hash64(&(&t.c2s, &t.s2c)));
    let ph = t.projection_hash();
    if st.projections.insert(ph) && scn.lazy_server {
        st.projection_examples.insert(ph, t.choice_names());
    }
    if t.hit_step_cap {
        st.step_cap_hits += 1;
    }
    if !t.machinery.is_empty() {
        machinery_error(&format!("scenario {}: {} (choices {:?})", scn.name, t.machinery.join("; "), t.choice_names()));
    }
    for (wanted, actual) in &t.race_orders {
        let ok = match poll_order_mode() {
            PollOrder::Seeded => wanted == actual,
            // the code under test fixes the order itself (`biased;`): the order is not a choice, both
            // Race variants run the one order there is
            PollOrder::Fixed(first) => *actual == first,
        };
        if !ok {
            machinery_error(&format!(
                "scenario {}: select! polled {} first although the {} order says otherwise (choices {:?})",
                scn.name,
                if *actual { "the connection" } else { "the queue" },
                if poll_order_mode() == PollOrder::Seeded { "seeded" } else { "calibrated fixed" },
                t.choice_names()
            ));
        }
    }
    if st.samples.len() < 2 && (t.deviations() >= 1 || st.executions == 1) {
        st.samples.push(json!({"scenario": scn.name, "choices": t.choice_names(), "client_wrote": show_bytes(&t.c2s), "events": t.events.iter().map(|e| e.text.clone()).collect::<Vec<_>>()}));
    }
    st.cur_nontrivial = false;
    let vs = oracle(scn, t, st);
    if st.cur_nontrivial {
        st.nontrivial += 1;
    }
    if !vs.is_empty() {
        // "The same schedule must fail every time": the first few executions reporting a signature are
        // replayed from scratch by event name (the path `--replay` takes, independent of the prefix
        // chooser) and must give the identical log and the identical verdict; anything else is a defect
        // of the machinery (uncaptured nondeterminism), not a verdict.
        let fresh = vs.iter().any(|v| st.viol.by_sig.get(&v.sig).map_or(true, |e| e.1.len() < crate::common::KEEP_PER_SIG));
        if fresh {
            let mut chooser = NameChooser { names: t.choice_names(), cursor: 0, repeats: 0 };
            match run_once(scn, &mut chooser) {
                Err(e) => machinery_error(&format!("scenario {}: violating schedule does not replay: {e} (choices {:?})", scn.name, t.choice_names())),
                Ok(t2) => {
                    let mut scratch = ExploreStats::default();
                    let mut a: Vec<String> = vs.iter().map(|v| v.sig.clone()).collect();
                    let mut b: Vec<String> = oracle(scn, &t2, &mut scratch).into_iter().map(|v| v.sig).collect();
                    a.sort();
                    b.sort();
                    if t2.log != t.log || a != b {
                        machinery_error(&format!("scenario {}: violating schedule is not reproducible: first {:?}, replay {:?} (choices {:?})", scn.name, a, b, t.choice_names()));
                    }
                    st.violations_replayed += 1;
                }
            }
        }
    }
    for mut v in vs {
        // attach the replayable case
        v.case = t.case_json(scn);
        st.viol.push(v);
    }
}

fn explore_rec(scn: &Scenario, prefix: &mut Vec<(usize, u64, u64)>, bound: usize, oracle: &Oracle, st: &mut ExploreStats, budget: &Budget) {
    if st.capped {
        return;
    }
    let n = EXEC_COUNTER.fetch_add(1, Ordering::Relaxed);
    if n >= budget.max_executions || (n % 256 == 0 && std::time::Instant::now() > budget.deadline) {
        st.capped = true;
        return;
    }
    let mut chooser = PrefixChooser { prefix };
    let t = match run_once(scn, &mut chooser) {
        Ok(t) => t,
        Err(e) => machinery_error(&format!("scenario {}: {e}", scn.name)),
    };
    process_trace(scn, &t, oracle, st);
    let plen = prefix.len();
    let mut cost: usize = t.points[..plen.min(t.points.len())].iter().filter(|p| p.chosen != 0).count();
    for i in plen..t.points.len() {
        let p = &t.points[i];
        if cost + 1 <= bound {
            for alt in 1..p.enabled.len() {
                // rebuild prefix = choices[..i] + alt
                prefix.truncate(plen);
                for j in plen..i {
                    let q = &t.points[j];
                    prefix.push((q.chosen, hash64(&q.enabled), q.obs_hash));
                }
                prefix.push((alt, hash64(&p.enabled), p.obs_hash));
                explore_rec(scn, prefix, bound, oracle, st, budget);
            }
        }
        if p.chosen != 0 {
            cost += 1;
        }
    }
    prefix.truncate(plen);
}

/// Who decides which branch of the loop's idle `select!` is polled first when both are ready.
#[derive(Clone, Copy, Debug, PartialEq, Eq)]
pub enum PollOrder {
    /// tokio's per-poll random draw, which the harness owns (seeded runtime + sync/align)
    Seeded,
    /// the code under test (a `biased;` select or an equivalent fixed order); true = connection first
    Fixed(bool),
}

/// Calibrated once per process on a two-event probe: a notification, then a request and the
/// notification's bytes made ready for the same poll, asked for in both orders.
pub fn poll_order_mode() -> PollOrder {
    static MODE: std::sync::OnceLock<PollOrder> = std::sync::OnceLock::new();
    *MODE.get_or_init(|| {
        let mut scn = Scenario::new("poll-order-calibration", vec![CallerProg { ops: vec![Op::Raw("cmd K1".into())], pipeline: false }]);
        scn.notify_names = vec!["player"];
        scn.notify_budget = 1;
        let observe = |order: &str| -> bool {
            let names = vec!["Notify(player)".to_string(), format!("Race(Issue(0),DeliverAll,{order})")];
            let mut chooser = NameChooser { names, cursor: 0, repeats: 0 };
            let t = run_once(&scn, &mut chooser).unwrap_or_else(|e| machinery_error(&format!("poll-order calibration: {e}")));
            match t.race_orders.first() {
                Some((_, actual)) => *actual,
                None => machinery_error("poll-order calibration: the probe race did not reach the idle select"),
            }
        };
        // try 2, 3, 4 branches: the first count under which both requested orders are obeyed from
        // eight different positions of the generator's sequence (one position could obey by chance)
        let mut fixed: Option<bool> = None;
        let mut all_same = true;
        for n in [2u32, 3, 4] {
            SELECT_BRANCHES.store(n, Ordering::Relaxed);
            let mut obeyed = true;
            for burn in 0..8u32 {
                CALIBRATION_BURN.store(burn, Ordering::Relaxed);
                let (a, b) = (observe("connection-polled-first"), observe("queue-polled-first"));
                let (a2, b2) = (observe("connection-polled-first"), observe("queue-polled-first"));
                if (a, b) != (a2, b2) {
                    machinery_error("poll-order calibration is not reproducible");
                }
                obeyed &= (a, b) == (true, false);
                for x in [a, b] {
                    match fixed {
                        None if all_same && n == 2 && burn == 0 && x == a => fixed = Some(x),
                        Some(f) if f != x => all_same = false,
                        _ => {}
                    }
                }
            }
            CALIBRATION_BURN.store(0, Ordering::Relaxed);
            if obeyed {
                return PollOrder::Seeded;
            }
        }
        if !all_same {
            fixed = None;
        }
        SELECT_BRANCHES.store(2, Ordering::Relaxed);
        match fixed {
            // the same order whatever was asked for, under every branch count: the code fixes it
            Some(x) => PollOrder::Fixed(x),
            None => machinery_error("poll-order calibration: the harness does not own the loop's select! (neither a seeded 2-4-branch select nor a fixed order)"),
        }
    })
}

/// Explore all schedules of `scn` with at most `bound` deviations from the default schedule.
/// Work is distributed over threads by first-level prefix.
pub fn explore(scn: &Scenario, bound: usize, oracle: &Oracle, budget: &Budget) -> ExploreStats {
    // calibrate before anything is executed (the branch count steers the alignment of every execution)
    let _ = poll_order_mode();
    EXEC_COUNTER.store(0, Ordering::Relaxed);
    let mut st = ExploreStats::default();
    // root execution
    let mut chooser = PrefixChooser { prefix: &[] };
    let root = match run_once(scn, &mut chooser) {
        Ok(t) => t,
        Err(e) => machinery_error(&format!("scenario {}: {e}", scn.name)),
    };
    // determinism self-check: the default schedule twice gives identical observations
    let mut chooser2 = PrefixChooser { prefix: &[] };
    let root2 = run_once(scn, &mut chooser2).unwrap_or_else(|e| machinery_error(&e));
    if root.log != root2.log || root.choice_names() != root2.choice_names() {
        machinery_error(&format!("scenario {}: default schedule is not deterministic", scn.name));
    }
    process_trace(scn, &root, oracle, &mut st);
    EXEC_COUNTER.fetch_add(1, Ordering::Relaxed);
    if bound == 0 {
        return st;
    }
    // first-level work items
    let mut items: Vec<Vec<(usize, u64, u64)>> = Vec::new();
    for i in 0..root.points.len() {
        let p = &root.points[i];
        for alt in 1..p.enabled.len() {
            let mut prefix: Vec<(usize, u64, u64)> = root.points[..i].iter().map(|q| (q.chosen, hash64(&q.enabled), q.obs_hash)).collect();
            prefix.push((alt, hash64(&p.enabled), p.obs_hash));
            items.push(prefix);
        }
    }
    let sub = items
        .into_par_iter()
        .map(|mut prefix| {
            let mut st = ExploreStats::default();
            explore_rec(scn, &mut prefix, bound, oracle, &mut st, budget);
            st
        })
        .reduce(ExploreStats::default, ExploreStats::merge);
    st.merge(sub)
}

/// Re-execute one recorded choice list (by event name) and print the trace.
pub fn replay_names(scn: &Scenario, names: Vec<String>, oracle: &Oracle) -> i32 {
    let mode = poll_order_mode();
    if std::env::var_os("VERIF_DEBUG_RNG").is_some() {
        eprintln!("rng: poll order mode {mode:?}, {} select branches", SELECT_BRANCHES.load(Ordering::Relaxed));
    }
    let mut chooser = NameChooser { names, cursor: 0, repeats: 0 };
    match run_once(scn, &mut chooser) {
        Err(e) => {
            println!("replay failed: {e}");
            2
        }
        Ok(t) => {
            for l in t.render_log() {
                println!("{l}");
            }
            let mut st = ExploreStats::default();
            let vs = oracle(scn, &t, &mut st);
            if vs.is_empty() {
                println!("replay: property holds on this schedule");
                0
            } else {
                for v in vs {
                    println!("replay: VIOLATION sig={} :: {}", v.sig, v.what);
                }
                1
            }
        }
    }
}
