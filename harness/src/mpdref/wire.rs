//! Abstract MPD responses, their wire encoder, and an independent *line-based* reference decoder
//! for arbitrary server bytes. The decoder is deliberately not built from parser combinators.

use mpd_protocol::response::{Error as RealError, Frame as RealFrame, Response as RealResponse};
use serde_json::{json, Value};

use crate::common::show_bytes;

#[derive(Clone, Debug, PartialEq, Eq, Hash, Default)]
pub struct AFrame {
    pub fields: Vec<(String, String)>,
    pub binary: Option<Vec<u8>>,
}

impl AFrame {
    pub fn new(fields: &[(&str, &str)]) -> AFrame {
        AFrame {
            fields: fields.iter().map(|(k, v)| (k.to_string(), v.to_string())).collect(),
            binary: None,
        }
    }
    pub fn with_binary(mut self, b: &[u8]) -> AFrame {
        self.binary = Some(b.to_vec());
        self
    }
    pub fn is_empty(&self) -> bool {
        self.fields.is_empty() && self.binary.is_none()
    }
    pub fn to_json(&self) -> Value {
        json!({"fields": self.fields, "binary": self.binary.as_ref().map(|b| show_bytes(&b[..b.len().min(64)]))})
    }
}

#[derive(Clone, Debug, PartialEq, Eq, Hash)]
pub struct AError {
    pub code: u64,
    pub index: u64,
    pub command: Option<String>,
    pub message: String,
}

impl AError {
    pub fn new(code: u64, index: u64, command: Option<&str>, message: &str) -> AError {
        AError {
            code,
            index,
            command: command.map(|s| s.to_string()),
            message: message.to_string(),
        }
    }
    pub fn encode(&self, out: &mut Vec<u8>) {
        out.extend_from_slice(
            format!(
                "ACK [{}@{}] {{{}}} {}\n",
                self.code,
                self.index,
                self.command.as_deref().unwrap_or(""),
                self.message
            )
            .as_bytes(),
        );
    }
}

/// What a decoder is supposed to hand to the user for one response.
#[derive(Clone, Debug, PartialEq, Eq, Hash, Default)]
pub struct AResponse {
    pub frames: Vec<AFrame>,
    pub error: Option<AError>,
}

impl AResponse {
    pub fn to_json(&self) -> Value {
        json!({
            "frames": self.frames.iter().map(|f| f.to_json()).collect::<Vec<_>>(),
            "error": self.error.as_ref().map(|e| json!({"code": e.code, "index": e.index, "command": e.command, "message": e.message})),
        })
    }
}

/// Where the binary part of a frame is placed among its fields (MPD puts it last; the decoder must
/// not care).
#[derive(Clone, Copy, Debug, PartialEq, Eq, Hash)]
pub enum BinPos {
    Last,
    First,
}

/// The shapes in which a server writes one response.
#[derive(Clone, Debug, PartialEq, Eq, Hash)]
pub enum Wire {
    /// reply to a single command: fields, `OK`
    Single(AFrame),
    /// reply to `command_list_ok_begin`: each frame followed by `list_OK`, then `OK`
    List(Vec<AFrame>),
    /// single command that failed after writing `partial`
    SingleErr { partial: AFrame, err: AError },
    /// list whose command number `done.len()` failed after writing `partial`
    ListErr { done: Vec<AFrame>, partial: AFrame, err: AError },
}

pub fn encode_frame(f: &AFrame, pos: BinPos, out: &mut Vec<u8>) {
    let bin = |out: &mut Vec<u8>| {
        if let Some(b) = &f.binary {
            out.extend_from_slice(format!("binary: {}\n", b.len()).as_bytes());
            out.extend_from_slice(b);
            out.push(b'\n');
        }
    };
    if pos == BinPos::First {
        bin(out);
    }
    for (k, v) in &f.fields {
        out.extend_from_slice(k.as_bytes());
        out.extend_from_slice(b": ");
        out.extend_from_slice(v.as_bytes());
        out.push(b'\n');
    }
    if pos == BinPos::Last {
        bin(out);
    }
}

impl Wire {
    pub fn encode(&self, pos: BinPos, out: &mut Vec<u8>) {
        match self {
            Wire::Single(f) => {
                encode_frame(f, pos, out);
                out.extend_from_slice(b"OK\n");
            }
            Wire::List(fs) => {
                for f in fs {
                    encode_frame(f, pos, out);
                    out.extend_from_slice(b"list_OK\n");
                }
                out.extend_from_slice(b"OK\n");
            }
            Wire::SingleErr { partial, err } => {
                encode_frame(partial, pos, out);
                err.encode(out);
            }
            Wire::ListErr { done, partial, err } => {
                for f in done {
                    encode_frame(f, pos, out);
                    out.extend_from_slice(b"list_OK\n");
                }
                encode_frame(partial, pos, out);
                err.encode(out);
            }
        }
    }

    /// The value a faithful decoder returns (computed from the abstract response, not from bytes).
    pub fn expected(&self) -> AResponse {
        match self {
            Wire::Single(f) => AResponse { frames: vec![f.clone()], error: None },
            Wire::List(fs) => AResponse { frames: fs.clone(), error: None },
            Wire::SingleErr { err, .. } => AResponse { frames: vec![], error: Some(err.clone()) },
            Wire::ListErr { done, err, .. } => AResponse { frames: done.clone(), error: Some(err.clone()) },
        }
    }
}

/// Encode a sequence of responses; returns the bytes and the offsets at which each response ends.
pub fn encode_stream(items: &[Wire], pos: BinPos) -> (Vec<u8>, Vec<usize>) {
    let mut out = Vec::new();
    let mut bounds = Vec::new();
    for w in items {
        w.encode(pos, &mut out);
        bounds.push(out.len());
    }
    (out, bounds)
}

// ---------------------------------------------------------------------------------------------
// Observation of the real types in abstract form

pub fn observe_frame(f: &RealFrame) -> AFrame {
    AFrame {
        fields: f.fields().map(|(k, v)| (k.to_string(), v.to_string())).collect(),
        binary: f.binary().map(|b| b.to_vec()),
    }
}

pub fn observe_error(e: &RealError) -> AError {
    AError {
        code: e.code,
        index: e.command_index,
        command: e.current_command.as_deref().map(|s| s.to_string()),
        message: e.message.to_string(),
    }
}

pub fn observe_response(r: &RealResponse) -> AResponse {
    let mut out = AResponse::default();
    for item in r.frames() {
        match item {
            Ok(f) => out.frames.push(observe_frame(f)),
            Err(e) => out.error = Some(observe_error(e)),
        }
    }
    out
}

// ---------------------------------------------------------------------------------------------
// Reference decoder for arbitrary bytes

#[derive(Clone, Debug, PartialEq, Eq)]
pub enum RefEnd {
    /// stream ends exactly on a response boundary
    Clean,
    /// stream stops inside a response (complete lines pending and/or a partial line / payload)
    Early,
    /// a complete line (or the byte after a binary payload) is malformed
    Malformed,
}

#[derive(Clone, Debug, PartialEq, Eq)]
pub struct RefDecoded {
    pub responses: Vec<AResponse>,
    /// offset at which each response ends
    pub boundaries: Vec<usize>,
    pub end: RefEnd,
    /// offset of the first byte of the offending line when `end == Malformed`
    pub malformed_at: Option<usize>,
}

fn is_key_byte(b: u8) -> bool {
    b.is_ascii_alphabetic() || b == b'_' || b == b'-'
}

fn parse_u64_digits(d: &[u8]) -> Option<u64> {
    if d.is_empty() || !d.iter().all(|b| b.is_ascii_digit()) {
        return None;
    }
    let mut v: u64 = 0;
    for &b in d {
        v = v.checked_mul(10)?.checked_add((b - b'0') as u64)?;
    }
    Some(v)
}

enum Line {
    Ok,
    ListOk,
    Ack(AError),
    Binary(usize),
    Field(String, String),
    Malformed,
}

/// `lenient_keys`: field names may hold any printable character (ASCII or not) except the colon.
/// The protocol does not restrict field names; the library's alphabet (letters, `_`, `-`) is what it
/// accepts today, so a line whose name lies outside it is *unspecified*, not malformed: rejecting it
/// and accepting it verbatim are both faithful. (Invalid UTF-8, control characters, blanks and an
/// empty name stay malformed.)
fn classify(l: &[u8], lenient_keys: bool) -> Line {
    if l == b"OK" {
        return Line::Ok;
    }
    if l == b"list_OK" {
        return Line::ListOk;
    }
    if l.starts_with(b"ACK ") {
        return classify_ack(&l[4..]).map(Line::Ack).unwrap_or(Line::Malformed);
    }
    if let Some(rest) = l.strip_prefix(b"binary: ") {
        if !rest.is_empty() && rest.iter().all(|b| b.is_ascii_digit()) {
            return match parse_u64_digits(rest).and_then(|v| usize::try_from(v).ok()) {
                Some(n) => Line::Binary(n),
                None => Line::Malformed,
            };
        }
    }
    // <key>: <value>
    let klen = if lenient_keys {
        // longest prefix without a colon that is valid UTF-8 made of printable, non-blank characters
        let upto = l.iter().position(|&b| b == b':').unwrap_or(l.len());
        match std::str::from_utf8(&l[..upto]) {
            Ok(k) if !k.is_empty() && k.chars().all(|c| !c.is_control() && !c.is_whitespace()) => upto,
            _ => l.iter().take_while(|&&b| is_key_byte(b)).count(),
        }
    } else {
        l.iter().take_while(|&&b| is_key_byte(b)).count()
    };
    if klen == 0 {
        return Line::Malformed;
    }
    if l.len() < klen + 2 || &l[klen..klen + 2] != b": " {
        return Line::Malformed;
    }
    let key = std::str::from_utf8(&l[..klen]).unwrap().to_string();
    match std::str::from_utf8(&l[klen + 2..]) {
        Ok(v) => Line::Field(key, v.to_string()),
        Err(_) => Line::Malformed,
    }
}

fn classify_ack(r: &[u8]) -> Option<AError> {
    // [<digits>@<digits>] {<letters|_>*} <utf8>
    let mut i = 0;
    if r.get(i) != Some(&b'[') {
        return None;
    }
    i += 1;
    let s = i;
    while r.get(i).is_some_and(|b| b.is_ascii_digit()) {
        i += 1;
    }
    let code = parse_u64_digits(&r[s..i])?;
    if r.get(i) != Some(&b'@') {
        return None;
    }
    i += 1;
    let s = i;
    while r.get(i).is_some_and(|b| b.is_ascii_digit()) {
        i += 1;
    }
    let index = parse_u64_digits(&r[s..i])?;
    if r.get(i) != Some(&b']') || r.get(i + 1) != Some(&b' ') || r.get(i + 2) != Some(&b'{') {
        return None;
    }
    i += 3;
    let s = i;
    while r.get(i).is_some_and(|&b| b.is_ascii_alphabetic() || b == b'_') {
        i += 1;
    }
    let command = if i > s { Some(std::str::from_utf8(&r[s..i]).unwrap().to_string()) } else { None };
    if r.get(i) != Some(&b'}') || r.get(i + 1) != Some(&b' ') {
        return None;
    }
    i += 2;
    let message = std::str::from_utf8(&r[i..]).ok()?.to_string();
    Some(AError { code, index, command, message })
}

/// Decode a whole server byte stream (after the greeting) by the reference grammar.
pub fn ref_decode(stream: &[u8]) -> RefDecoded {
    ref_decode_with(stream, 0).0
}

/// `accept_unspecified`: how many lines with a field name outside the library's present alphabet
/// (see `classify`) are accepted verbatim before the next one is treated as malformed (0 = the strict
/// reading). Also returns how many such lines were met.
pub fn ref_decode_with(stream: &[u8], accept_unspecified: usize) -> (RefDecoded, usize) {
    let mut unspecified_met = 0usize;
    let d = ref_decode_inner(stream, &mut |line: &[u8]| {
        let strict_ok = !matches!(classify(line, false), Line::Malformed);
        if strict_ok {
            return false;
        }
        if matches!(classify(line, true), Line::Malformed) {
            return false;
        }
        // unspecified line
        unspecified_met += 1;
        unspecified_met <= accept_unspecified
    });
    (d, unspecified_met)
}

fn ref_decode_inner(stream: &[u8], lenient_for: &mut dyn FnMut(&[u8]) -> bool) -> RefDecoded {
    let mut out = RefDecoded { responses: vec![], boundaries: vec![], end: RefEnd::Clean, malformed_at: None };
    let mut pos = 0usize;
    // builder
    let mut in_list = false;
    let mut done: Vec<AFrame> = Vec::new();
    let mut cur = AFrame::default();
    let mut started = false; // any complete line since the last boundary

    loop {
        if pos == stream.len() {
            out.end = if started { RefEnd::Early } else { RefEnd::Clean };
            return out;
        }
        let Some(rel) = stream[pos..].iter().position(|&b| b == b'\n') else {
            out.end = RefEnd::Early;
            return out;
        };
        let line = &stream[pos..pos + rel];
        let line_start = pos;
        pos += rel + 1;
        let lenient_keys = lenient_for(line);
        match classify(line, lenient_keys) {
            Line::Malformed => {
                out.end = RefEnd::Malformed;
                out.malformed_at = Some(line_start);
                return out;
            }
            Line::Field(k, v) => {
                started = true;
                cur.fields.push((k, v));
            }
            Line::Binary(n) => {
                started = true;
                // payload + LF
                let avail = stream.len() - pos;
                if n >= avail {
                    // payload (or its trailing LF) not completely present
                    out.end = RefEnd::Early;
                    return out;
                }
                if stream[pos + n] != b'\n' {
                    out.end = RefEnd::Malformed;
                    out.malformed_at = Some(line_start);
                    return out;
                }
                cur.binary = Some(stream[pos..pos + n].to_vec());
                pos += n + 1;
            }
            Line::ListOk => {
                started = true;
                in_list = true;
                done.push(std::mem::take(&mut cur));
            }
            Line::Ok => {
                let frames = if in_list { std::mem::take(&mut done) } else { vec![std::mem::take(&mut cur)] };
                out.responses.push(AResponse { frames, error: None });
                out.boundaries.push(pos);
                in_list = false;
                done.clear();
                cur = AFrame::default();
                started = false;
            }
            Line::Ack(e) => {
                let frames = if in_list { std::mem::take(&mut done) } else { vec![] };
                out.responses.push(AResponse { frames, error: Some(e) });
                out.boundaries.push(pos);
                in_list = false;
                done.clear();
                cur = AFrame::default();
                started = false;
            }
        }
    }
}

/// Reference reading of a greeting: `OK MPD ` + non-empty valid UTF-8 up to LF.
#[derive(Clone, Debug, PartialEq, Eq)]
pub enum RefGreeting {
    Version(String),
    Malformed,
    /// proper prefix of something that could still become a valid greeting
    Early,
}

pub fn ref_greeting(stream: &[u8]) -> RefGreeting {
    const P: &[u8] = b"OK MPD ";
    let n = stream.len().min(P.len());
    if stream[..n] != P[..n] {
        return RefGreeting::Malformed;
    }
    if stream.len() <= P.len() {
        return RefGreeting::Early;
    }
    let rest = &stream[P.len()..];
    match rest.iter().position(|&b| b == b'\n') {
        None => RefGreeting::Early,
        Some(0) => RefGreeting::Malformed,
        Some(p) => match std::str::from_utf8(&rest[..p]) {
            Ok(v) => RefGreeting::Version(v.to_string()),
            Err(_) => RefGreeting::Malformed,
        },
    }
}

pub fn self_test() -> Result<(), String> {
    // literal examples
    let d = ref_decode(b"volume: 10\nstate: play\nOK\n");
    if d.end != RefEnd::Clean
        || d.responses != vec![AResponse { frames: vec![AFrame::new(&[("volume", "10"), ("state", "play")])], error: None }]
        || d.boundaries != vec![26]
    {
        return Err(format!("wire self-test 1: {d:?}"));
    }
    let d = ref_decode(b"a: 1\nlist_OK\nlist_OK\nACK [50@2] {play} No such song\n");
    if d.end != RefEnd::Clean
        || d.responses
            != vec![AResponse {
                frames: vec![AFrame::new(&[("a", "1")]), AFrame::default()],
                error: Some(AError::new(50, 2, Some("play"), "No such song")),
            }]
    {
        return Err(format!("wire self-test 2: {d:?}"));
    }
    let d = ref_decode(b"size: 6\nbinary: 3\nOK\n\nOK\nOK");
    if d.end != RefEnd::Early
        || d.responses != vec![AResponse { frames: vec![AFrame::new(&[("size", "6")]).with_binary(b"OK\n")], error: None }]
    {
        return Err(format!("wire self-test 3: {d:?}"));
    }
    for (bytes, end) in [
        (&b"OK\r\n"[..], RefEnd::Malformed),
        (b"foo\n", RefEnd::Malformed),
        (b"foo:bar\n", RefEnd::Malformed),
        (b"binary: 18446744073709551616\n", RefEnd::Malformed),
        (b"binary: 2\nabc\n", RefEnd::Malformed),
        (b"binary: 2\nab", RefEnd::Early),
        (b"ACK [1@0] {} \n", RefEnd::Clean),
        (b"ACK [1@0]\n", RefEnd::Malformed),
        (b"ACK [99999999999999999999@0] {} x\n", RefEnd::Malformed),
        (b"binary: 12x\nOK\n", RefEnd::Clean),
        (b"OK: x\nOK\n", RefEnd::Clean),
        (b"a: \xff\n", RefEnd::Malformed),
        (b"", RefEnd::Clean),
        (b"O", RefEnd::Early),
        (b"a: b\n", RefEnd::Early),
    ] {
        let d = ref_decode(bytes);
        if d.end != end {
            return Err(format!("wire self-test: {:?} gave {:?}, wanted {:?}", show_bytes(bytes), d.end, end));
        }
    }
    if ref_greeting(b"OK MPD 0.23.5\n") != RefGreeting::Version("0.23.5".into())
        || ref_greeting(b"OK MPD ") != RefGreeting::Early
        || ref_greeting(b"OK MPD \n") != RefGreeting::Malformed
        || ref_greeting(b"OK MPX") != RefGreeting::Malformed
        || ref_greeting(b"") != RefGreeting::Early
    {
        return Err("greeting self-test".into());
    }
    Ok(())
}
