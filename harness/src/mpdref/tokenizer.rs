//! Port of MPD's request tokenizer (`src/util/Tokenizer.cxx`, `src/client/Read.cxx`,
//! `src/command/AllCommands.cxx::command_process`). Deliberately boring and byte-oriented.
//!
//! * a request is the bytes up to (not including) LF;
//! * trailing bytes <= 0x20 are stripped (`StripRight`, `IsWhitespaceOrNull`);
//! * the line is a C string: everything from the first NUL on is invisible;
//! * `NextWord`: first char ASCII letter, then letters/digits/`_`, ends at whitespace (any byte in
//!   1..=0x20) or end; following whitespace is skipped;
//! * `NextParam`: `NextString` if the next byte is `"`, else `NextUnquoted`;
//! * `NextUnquoted`: bytes > 0x20 other than `"` and `'`, **no unescaping**;
//! * `NextString`: backslash makes the next byte literal, closing quote must be followed by
//!   whitespace or end.

pub const COMMAND_ARGV_MAX: usize = 16;

#[derive(Debug, Clone, PartialEq, Eq)]
pub struct Request {
    pub name: Vec<u8>,
    pub args: Vec<Vec<u8>>,
}

fn is_ws_not_null(b: u8) -> bool {
    b > 0 && b <= 0x20
}

fn strip_left(line: &[u8], mut i: usize) -> usize {
    while i < line.len() && is_ws_not_null(line[i]) {
        i += 1;
    }
    i
}

/// Tokenize one request line (without its LF) the way MPD does.
pub fn tokenize(raw: &[u8]) -> Result<Request, &'static str> {
    // StripRight: trailing bytes <= 0x20 (NUL included)
    let mut end = raw.len();
    while end > 0 && raw[end - 1] <= 0x20 {
        end -= 1;
    }
    let mut line = &raw[..end];
    // C string
    if let Some(p) = line.iter().position(|&b| b == 0) {
        line = &line[..p];
    }

    let mut i = 0usize;
    // NextWord
    if line.is_empty() {
        return Err("No command given");
    }
    if !line[0].is_ascii_alphabetic() {
        return Err("Letter expected");
    }
    let start = i;
    i += 1;
    let mut name_end = line.len();
    while i < line.len() {
        let b = line[i];
        if b <= 0x20 {
            name_end = i;
            i = strip_left(line, i + 1);
            break;
        }
        if !(b.is_ascii_alphanumeric() || b == b'_') {
            return Err("Invalid word character");
        }
        i += 1;
    }
    let name = line[start..name_end.min(line.len())].to_vec();
    if name_end == line.len() {
        i = line.len();
    }

    let mut args = Vec::new();
    loop {
        if i >= line.len() {
            break;
        }
        if args.len() == COMMAND_ARGV_MAX {
            return Err("Too many arguments");
        }
        if line[i] == b'"' {
            // NextString
            i += 1;
            let mut out = Vec::new();
            loop {
                if i >= line.len() {
                    return Err("Missing closing '\"'");
                }
                let mut b = line[i];
                if b == b'"' {
                    break;
                }
                if b == b'\\' {
                    i += 1;
                    if i >= line.len() {
                        return Err("Missing closing '\"'");
                    }
                    b = line[i];
                }
                out.push(b);
                i += 1;
            }
            i += 1; // closing quote
            if i < line.len() && line[i] > 0x20 {
                return Err("Space expected after closing '\"'");
            }
            i = strip_left(line, i);
            args.push(out);
        } else {
            // NextUnquoted
            let valid = |b: u8| b > 0x20 && b != b'"' && b != b'\'';
            if !valid(line[i]) {
                return Err("Invalid unquoted character");
            }
            let start = i;
            i += 1;
            let mut tok_end = line.len();
            while i < line.len() {
                let b = line[i];
                if b <= 0x20 {
                    tok_end = i;
                    break;
                }
                if !valid(b) {
                    return Err("Invalid unquoted character");
                }
                i += 1;
            }
            args.push(line[start..tok_end].to_vec());
            i = if tok_end < line.len() { strip_left(line, tok_end + 1) } else { line.len() };
        }
    }
    Ok(Request { name, args })
}

/// Split a client byte stream into request lines (each without its LF); the second value is the
/// unterminated remainder.
pub fn split_lines(stream: &[u8]) -> (Vec<&[u8]>, &[u8]) {
    let mut out = Vec::new();
    let mut start = 0;
    for (i, &b) in stream.iter().enumerate() {
        if b == b'\n' {
            out.push(&stream[start..i]);
            start = i + 1;
        }
    }
    (out, &stream[start..])
}

/// Self-test against literal examples (MPD protocol documentation and Tokenizer unit tests).
pub fn self_test() -> Result<(), String> {
    fn t(line: &[u8]) -> Result<(String, Vec<String>), &'static str> {
        tokenize(line).map(|r| {
            (
                String::from_utf8_lossy(&r.name).into_owned(),
                r.args.iter().map(|a| String::from_utf8_lossy(a).into_owned()).collect(),
            )
        })
    }
    let ok = |l: &[u8], name: &str, args: &[&str]| -> Result<(), String> {
        match t(l) {
            Ok((n, a)) if n == name && a == args => Ok(()),
            other => Err(format!("tokenizer self-test: {:?} gave {:?}", String::from_utf8_lossy(l), other)),
        }
    };
    let err = |l: &[u8]| -> Result<(), String> {
        match t(l) {
            Err(_) => Ok(()),
            other => Err(format!("tokenizer self-test: {:?} should fail, gave {:?}", String::from_utf8_lossy(l), other)),
        }
    };
    ok(b"status", "status", &[])?;
    ok(b"play 1", "play", &["1"])?;
    ok(b"add \"foo bar\"", "add", &["foo bar"])?;
    ok(b"add \"foo \\\"bar\\\"\"", "add", &["foo \"bar\""])?;
    ok(b"add \"a\\\\b\"", "add", &["a\\b"])?;
    // documented example: find "(Artist == \"foo\\'bar\\\"\")"  ->  (Artist == "foo\'bar\"")
    ok(
        b"find \"(Artist == \\\"foo\\\\'bar\\\\\\\"\\\")\"",
        "find",
        &["(Artist == \"foo\\'bar\\\"\")"],
    )?;
    ok(b"a  b\t c ", "a", &["b", "c"])?;
    ok(b"a \"\"", "a", &[""])?;
    ok(b"a b\\c", "a", &["b\\c"])?; // no unescaping in unquoted params
    ok(b"cmd x\0y", "cmd", &["x"])?; // C string
    ok(b"cmd a\rb", "cmd", &["a", "b"])?; // any byte <= 0x20 separates
    ok(b"cmd \xc3\xa9", "cmd", &["\u{e9}"])?;
    ok(b"cmd2_x y", "cmd2_x", &["y"])?;
    err(b"")?;
    err(b" status")?;
    err(b"1x")?;
    err(b"sta-tus")?;
    err(b"a b\"c")?;
    err(b"a b'c")?;
    err(b"a 'b'")?;
    err(b"a \"b")?;
    err(b"a \"b\"c")?;
    err(b"a \"b\\")?;
    Ok(())
}
