//! Port of MPD's filter-expression grammar (`src/song/Filter.cxx`: `ParseExpression`,
//! `ParseStringFilter`, `ExpectWord`, `ExpectQuoted`) — the *second* unescaping layer, applied to
//! the argument that the request tokenizer (first layer) produced.

#[derive(Debug, Clone, PartialEq, Eq, Hash)]
pub enum Expr {
    Tag { tag: Vec<u8>, op: String, value: Vec<u8> },
    Not(Box<Expr>),
    And(Vec<Expr>),
}

impl Expr {
    /// Normal form up to associativity of AND: nested ANDs are flattened, single-element ANDs
    /// (parenthesised expression) are unwrapped.
    pub fn normalize(&self) -> Expr {
        match self {
            Expr::Tag { .. } => self.clone(),
            Expr::Not(i) => Expr::Not(Box::new(i.normalize())),
            Expr::And(items) => {
                let mut out = Vec::new();
                for i in items {
                    match i.normalize() {
                        Expr::And(inner) => out.extend(inner),
                        other => out.push(other),
                    }
                }
                if out.len() == 1 {
                    out.pop().unwrap()
                } else {
                    Expr::And(out)
                }
            }
        }
    }

    pub fn show(&self) -> String {
        match self {
            Expr::Tag { tag, op, value } => format!(
                "({} {} <{}>)",
                String::from_utf8_lossy(tag),
                op,
                crate::common::show_bytes(value)
            ),
            Expr::Not(i) => format!("(!{})", i.show()),
            Expr::And(v) => format!("({})", v.iter().map(|e| e.show()).collect::<Vec<_>>().join(" AND ")),
        }
    }
}

struct P<'a> {
    s: &'a [u8],
    i: usize,
}

fn is_ws(b: u8) -> bool {
    b > 0 && b <= 0x20
}

impl<'a> P<'a> {
    fn peek(&self) -> u8 {
        // C string: NUL terminates
        match self.s.get(self.i) {
            Some(&b) => b,
            None => 0,
        }
    }
    fn strip_left(&mut self) {
        while is_ws(self.peek()) {
            self.i += 1;
        }
    }
    fn expect_word(&mut self) -> Result<Vec<u8>, &'static str> {
        let begin = self.i;
        while {
            let c = self.peek();
            c.is_ascii_alphabetic() || c == b'_' || c == b'-'
        } {
            self.i += 1;
        }
        if self.i == begin {
            return Err("Word expected");
        }
        let w = self.s[begin..self.i].to_vec();
        self.strip_left();
        Ok(w)
    }
    fn expect_quoted(&mut self) -> Result<Vec<u8>, &'static str> {
        let quote = self.peek();
        if quote != b'"' && quote != b'\'' {
            return Err("Quoted string expected");
        }
        self.i += 1;
        let mut out = Vec::new();
        while self.peek() != quote {
            if self.peek() == b'\\' {
                self.i += 1;
            }
            if self.peek() == 0 {
                return Err("Closing quote not found");
            }
            out.push(self.peek());
            self.i += 1;
            if out.len() >= 4096 {
                return Err("Quoted value is too long");
            }
        }
        self.i += 1;
        self.strip_left();
        Ok(out)
    }
    fn starts_with_ignore_case(&self, prefix: &[u8]) -> bool {
        let rest = &self.s[self.i.min(self.s.len())..];
        rest.len() >= prefix.len() && rest[..prefix.len()].eq_ignore_ascii_case(prefix)
    }
    fn string_filter(&mut self) -> Result<(String, Vec<u8>), &'static str> {
        for (kw, op) in [
            (&b"contains "[..], "contains"),
            (&b"!contains "[..], "!contains"),
            (&b"starts_with "[..], "starts_with"),
            (&b"!starts_with "[..], "!starts_with"),
        ] {
            if self.starts_with_ignore_case(kw) {
                self.i += kw.len();
                self.strip_left();
                let v = self.expect_quoted()?;
                return Ok((op.to_string(), v));
            }
        }
        let a = self.peek();
        let b = if a == 0 { 0 } else { *self.s.get(self.i + 1).unwrap_or(&0) };
        let op = match (a, b) {
            (b'!', b'~') => "!~",
            (b'=', b'~') => "=~",
            (b'!', b'=') => "!=",
            (b'=', b'=') => "==",
            _ => return Err("'==' or '!=' expected"),
        };
        self.i += 2;
        self.strip_left();
        let v = self.expect_quoted()?;
        Ok((op.to_string(), v))
    }
    fn expression(&mut self, depth: usize) -> Result<Expr, &'static str> {
        if depth > 64 {
            return Err("too deep");
        }
        if self.peek() != b'(' {
            return Err("'(' expected");
        }
        self.i += 1;
        self.strip_left();

        if self.peek() == b'(' {
            let first = self.expression(depth + 1)?;
            if self.peek() == b')' {
                self.i += 1;
                self.strip_left(); // most permissive reading (newer MPD versions)
                return Ok(Expr::And(vec![first]));
            }
            if self.expect_word()? != b"AND" {
                return Err("'AND' expected");
            }
            let mut items = vec![first];
            loop {
                items.push(self.expression(depth + 1)?);
                if self.peek() == b')' {
                    self.i += 1;
                    self.strip_left();
                    return Ok(Expr::And(items));
                }
                if self.expect_word()? != b"AND" {
                    return Err("'AND' expected");
                }
            }
        }

        if self.peek() == b'!' {
            self.i += 1;
            self.strip_left();
            if self.peek() != b'(' {
                return Err("'(' expected");
            }
            let inner = self.expression(depth + 1)?;
            if self.peek() != b')' {
                return Err("')' expected");
            }
            self.i += 1;
            self.strip_left();
            return Ok(Expr::Not(Box::new(inner)));
        }

        let tag = self.expect_word()?;
        let (op, value) = self.string_filter()?;
        if self.peek() != b')' {
            return Err("')' expected");
        }
        self.i += 1;
        self.strip_left();
        Ok(Expr::Tag { tag, op, value })
    }
}

/// Parse one filter argument (already tokenized, i.e. after the first unescaping layer).
pub fn parse(arg: &[u8]) -> Result<Expr, &'static str> {
    // C string semantics
    let arg = match arg.iter().position(|&b| b == 0) {
        Some(p) => &arg[..p],
        None => arg,
    };
    if arg.first() != Some(&b'(') {
        return Err("not an expression");
    }
    let mut p = P { s: arg, i: 0 };
    let e = p.expression(0)?;
    if p.i < arg.len() {
        return Err("Unparsed garbage after expression");
    }
    Ok(e)
}

pub fn self_test() -> Result<(), String> {
    let t = |s: &str| parse(s.as_bytes());
    let tag = |t: &str, op: &str, v: &str| Expr::Tag {
        tag: t.as_bytes().to_vec(),
        op: op.to_string(),
        value: v.as_bytes().to_vec(),
    };
    let check = |s: &str, e: Expr| -> Result<(), String> {
        match t(s) {
            Ok(got) if got.normalize() == e.normalize() => Ok(()),
            other => Err(format!("filter self-test: {s:?} gave {other:?}, wanted {e:?}")),
        }
    };
    check("(Artist == \"foo\")", tag("Artist", "==", "foo"))?;
    check("(Artist == 'foo')", tag("Artist", "==", "foo"))?;
    // documented: (Artist == "foo\'bar\"") is the artist  foo'bar"
    check("(Artist == \"foo\\'bar\\\"\")", tag("Artist", "==", "foo'bar\""))?;
    check("(!(Artist == \"x\"))", Expr::Not(Box::new(tag("Artist", "==", "x"))))?;
    check(
        "((Artist == \"a\") AND (Album != \"b\"))",
        Expr::And(vec![tag("Artist", "==", "a"), tag("Album", "!=", "b")]),
    )?;
    check(
        "((Artist contains \"a b\") AND (!(Album =~ \"b\")) AND (any !~ \"\"))",
        Expr::And(vec![
            tag("Artist", "contains", "a b"),
            Expr::Not(Box::new(tag("Album", "=~", "b"))),
            tag("any", "!~", ""),
        ]),
    )?;
    check("(a == \"x\\\\y\")", tag("a", "==", "x\\y"))?;
    for bad in [
        "",
        "Artist == \"x\"",
        "(Artist == \"x\"",
        "(Artist == x)",
        "(Artist = \"x\")",
        "(Artist == \"x\") ",
        "(Artist == \"x\")x",
        "(Artist == \"x\"y\")",
        "((Artist == \"x\") OR (a == \"b\"))",
        "(!Artist == \"x\")",
        "( == \"x\")",
    ] {
        if t(bad).is_ok() && bad != "(Artist == \"x\") " {
            return Err(format!("filter self-test: {bad:?} should fail"));
        }
    }
    Ok(())
}
