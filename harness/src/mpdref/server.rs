//! Simulated MPD server: the client-process rules of MPD that matter to a client library
//! (`src/client/Process.cxx`, `Idle.cxx`, `command/*`), kept boring.
//!
//! * `idle` answers at once if changes are pending, else waits; `noidle` answers `OK` iff waiting,
//!   else is ignored without reply; any other line while waiting is a protocol violation (MPD
//!   closes the connection);
//! * `command_list_ok_begin … command_list_end`: `list_OK` per command, `ACK [code@index]` on the
//!   first failing one;
//! * `password`, `readpicture` / `albumart` / `binarylimit` over a stored picture;
//! * every other command is answered by an echo reply that identifies the request line, except
//!   names starting with `fail`, which fail with ACK 50.

use std::collections::BTreeSet;

use super::tokenizer::tokenize;

/// MPD's fixed order of subsystem names in an idle reply.
pub const IDLE_NAMES: &[&str] = &[
    "database",
    "stored_playlist",
    "playlist",
    "player",
    "mixer",
    "output",
    "options",
    "partition",
    "sticker",
    "update",
    "subscription",
    "message",
    "neighbor",
    "mount",
];

#[derive(Clone, Debug, PartialEq, Eq)]
pub enum RecKind {
    Idle,
    Noidle,
    Password,
    Command,
    List,
}

#[derive(Clone, Debug)]
pub struct Record {
    pub kind: RecKind,
    /// request lines (without LF); for a list: begin, commands…, end
    pub lines: Vec<Vec<u8>>,
    /// reply bytes written *at the time the request was processed* (idle: may be empty)
    pub reply_start: usize,
    pub reply_end: usize,
    /// offset in the client->server stream at which this request ended
    pub c2s_end: usize,
    /// true if `noidle` arrived while the server was not idle (ignored without reply)
    pub ignored: bool,
}

#[derive(Clone, Debug)]
pub enum PicSource {
    /// command succeeds with an empty reply (`OK`) — nothing there
    Empty,
    /// command fails with this ACK code
    Ack(u64),
    /// picture bytes (+ MIME type, `readpicture` only)
    Data(Vec<u8>, Option<String>),
}

#[derive(Clone, Debug)]
pub struct ServerConfig {
    pub password: Option<String>,
    /// ACK code used to reject a wrong password (MPD: 3)
    pub password_ack_code: u64,
    pub embedded: PicSource,
    pub cover: PicSource,
    pub binary_limit: usize,
    /// if non-empty: the k-th picture chunk served is at most `chunk_pattern[k % len]` bytes (a
    /// server may return less than the limit)
    pub chunk_pattern: Vec<usize>,
    /// per-URI picture sources (uri, embedded, cover) that take precedence over the global ones
    pub per_uri: Vec<(String, PicSource, PicSource)>,
    /// `Some((k, code))`: after k picture chunks have been served, the next picture request that
    /// would return data fails with this ACK code (a read error in the middle of a file)
    pub fail_after_chunks: Option<(usize, u64)>,
    /// the optional `type` line is sent with the first chunk (offset 0) only
    pub mime_only_in_first_chunk: bool,
    /// message text of the ACK 5 a picture command answers with when it is "unknown" (None: MPD's
    /// own wording `unknown command "<name>"`)
    pub unknown_command_wording: Option<String>,
}

impl Default for ServerConfig {
    fn default() -> Self {
        ServerConfig { password: None, password_ack_code: 3, embedded: PicSource::Empty, cover: PicSource::Empty, binary_limit: 8192, chunk_pattern: vec![], per_uri: vec![], fail_after_chunks: None, mime_only_in_first_chunk: false, unknown_command_wording: None }
    }
}

#[derive(Clone, Debug)]
pub struct SimServer {
    pub cfg: ServerConfig,
    inbuf: Vec<u8>,
    pub c2s_seen: usize,
    pub idle_waiting: bool,
    /// pending changes (index into IDLE_NAMES, or IDLE_NAMES.len()+k for unknown name k)
    pending: BTreeSet<usize>,
    pub unknown_names: Vec<String>,
    list: Option<Vec<Vec<u8>>>,
    pub authed: bool,
    pub transcript: Vec<Record>,
    /// every `changed:` line written: (name, offset in s2c just after the `OK` of that reply)
    pub changed: Vec<(String, usize)>,
    /// protocol violations committed by the client
    pub violations: Vec<String>,
    pub dead: bool,
    pub chunks_served: usize,
    /// `count …` commands executed so far (their replies carry the serial number)
    pub counted: usize,
}

fn ack(out: &mut Vec<u8>, code: u64, index: usize, cmd: &str, msg: &str) {
    let cmd: String = cmd.chars().filter(|c| c.is_ascii_alphabetic() || *c == '_').collect();
    out.extend_from_slice(format!("ACK [{code}@{index}] {{{cmd}}} {msg}\n").as_bytes());
}

impl SimServer {
    pub fn new(cfg: ServerConfig) -> SimServer {
        let authed = cfg.password.is_none();
        SimServer {
            cfg,
            inbuf: Vec::new(),
            c2s_seen: 0,
            idle_waiting: false,
            pending: BTreeSet::new(),
            unknown_names: Vec::new(),
            list: None,
            authed,
            transcript: Vec::new(),
            changed: Vec::new(),
            violations: Vec::new(),
            dead: false,
            chunks_served: 0,
            counted: 0,
        }
    }

    fn name_index(&mut self, name: &str) -> usize {
        if let Some(i) = IDLE_NAMES.iter().position(|n| *n == name) {
            return i;
        }
        if let Some(k) = self.unknown_names.iter().position(|n| n == name) {
            return IDLE_NAMES.len() + k;
        }
        self.unknown_names.push(name.to_string());
        IDLE_NAMES.len() + self.unknown_names.len() - 1
    }

    fn index_name(&self, i: usize) -> String {
        if i < IDLE_NAMES.len() {
            IDLE_NAMES[i].to_string()
        } else {
            self.unknown_names[i - IDLE_NAMES.len()].clone()
        }
    }

    fn write_changes(&mut self, out: &mut Vec<u8>) {
        let pend: Vec<usize> = std::mem::take(&mut self.pending).into_iter().collect();
        let mut names = Vec::new();
        for i in pend {
            let n = self.index_name(i);
            out.extend_from_slice(format!("changed: {n}\n").as_bytes());
            names.push(n);
        }
        out.extend_from_slice(b"OK\n");
        let end = out.len();
        for n in names {
            self.changed.push((n, end));
        }
    }

    /// A subsystem changed on the server side.
    pub fn notify(&mut self, name: &str, out: &mut Vec<u8>) {
        if self.dead {
            return;
        }
        let i = self.name_index(name);
        self.pending.insert(i);
        if self.idle_waiting {
            self.idle_waiting = false;
            self.write_changes(out);
        }
    }

    pub fn pending_count(&self) -> usize {
        self.pending.len()
    }

    pub fn in_list(&self) -> bool {
        self.list.is_some()
    }

    /// Bytes written by the client arrive; replies are appended to `out` (the server->client stream).
    pub fn feed(&mut self, bytes: &[u8], out: &mut Vec<u8>) {
        for &b in bytes {
            self.c2s_seen += 1;
            if b == b'\n' {
                let line = std::mem::take(&mut self.inbuf);
                if !self.dead {
                    self.line(line, out);
                }
            } else {
                self.inbuf.push(b);
            }
        }
    }

    pub fn partial_line(&self) -> &[u8] {
        &self.inbuf
    }

    fn line(&mut self, line: Vec<u8>, out: &mut Vec<u8>) {
        let reply_start = out.len();
        // --- idle state -------------------------------------------------------------------
        if self.idle_waiting {
            if line == b"noidle" {
                self.idle_waiting = false;
                out.extend_from_slice(b"OK\n");
                self.transcript.push(Record { kind: RecKind::Noidle, lines: vec![line], reply_start, reply_end: out.len(), c2s_end: self.c2s_seen, ignored: false });
            } else {
                self.violations.push(format!("line {:?} received while the server was waiting in idle (MPD closes the connection)", String::from_utf8_lossy(&line)));
                self.transcript.push(Record { kind: RecKind::Command, lines: vec![line], reply_start, reply_end: reply_start, c2s_end: self.c2s_seen, ignored: true });
                self.dead = true;
            }
            return;
        }
        // --- command list accumulation ----------------------------------------------------
        if let Some(list) = &mut self.list {
            if line == b"command_list_end" {
                let mut lines = vec![b"command_list_ok_begin".to_vec()];
                let cmds = self.list.take().unwrap();
                lines.extend(cmds.iter().cloned());
                lines.push(line);
                for (i, c) in cmds.iter().enumerate() {
                    let ok = self.execute(c, i, out);
                    if !ok {
                        self.transcript.push(Record { kind: RecKind::List, lines, reply_start, reply_end: out.len(), c2s_end: self.c2s_seen, ignored: false });
                        return;
                    }
                    out.extend_from_slice(b"list_OK\n");
                }
                out.extend_from_slice(b"OK\n");
                self.transcript.push(Record { kind: RecKind::List, lines, reply_start, reply_end: out.len(), c2s_end: self.c2s_seen, ignored: false });
            } else {
                if line == b"command_list_begin" || line == b"command_list_ok_begin" {
                    self.violations.push("nested command list".to_string());
                }
                list.push(line);
            }
            return;
        }
        if line == b"command_list_ok_begin" {
            self.list = Some(Vec::new());
            return;
        }
        if line == b"command_list_begin" {
            // the library never uses this form; its replies cannot be split per command
            self.violations.push("command_list_begin (without list_OK separators) used".to_string());
            self.list = Some(Vec::new());
            return;
        }
        if line == b"command_list_end" {
            ack(out, 5, 0, "", "unknown command \"command_list_end\"");
            self.transcript.push(Record { kind: RecKind::Command, lines: vec![line], reply_start, reply_end: out.len(), c2s_end: self.c2s_seen, ignored: false });
            return;
        }
        // --- single lines -------------------------------------------------------------------
        if line == b"noidle" {
            // not idling: ignored, no reply
            self.transcript.push(Record { kind: RecKind::Noidle, lines: vec![line], reply_start, reply_end: reply_start, c2s_end: self.c2s_seen, ignored: true });
            return;
        }
        let req = tokenize(&line);
        let name = req.as_ref().map(|r| String::from_utf8_lossy(&r.name).into_owned()).unwrap_or_default();
        if name == "idle" {
            if !self.authed {
                ack(out, 4, 0, "idle", "you don't have permission for \"idle\"");
                self.transcript.push(Record { kind: RecKind::Idle, lines: vec![line], reply_start, reply_end: out.len(), c2s_end: self.c2s_seen, ignored: false });
                return;
            }
            if !self.pending.is_empty() {
                self.write_changes(out);
            } else {
                self.idle_waiting = true;
            }
            self.transcript.push(Record { kind: RecKind::Idle, lines: vec![line], reply_start, reply_end: out.len(), c2s_end: self.c2s_seen, ignored: false });
            return;
        }
        let kind = if name == "password" { RecKind::Password } else { RecKind::Command };
        if self.execute(&line, 0, out) {
            out.extend_from_slice(b"OK\n");
        }
        self.transcript.push(Record { kind, lines: vec![line], reply_start, reply_end: out.len(), c2s_end: self.c2s_seen, ignored: false });
    }

    /// Execute one command; writes its output (without the final OK / list_OK); false on ACK.
    fn execute(&mut self, line: &[u8], index: usize, out: &mut Vec<u8>) -> bool {
        let req = match tokenize(line) {
            Ok(r) => r,
            Err(e) => {
                ack(out, 5, index, "", e);
                return false;
            }
        };
        let name = String::from_utf8_lossy(&req.name).into_owned();
        if name == "password" {
            let given = req.args.first().cloned().unwrap_or_default();
            match &self.cfg.password {
                Some(p) if p.as_bytes() == given.as_slice() => {
                    self.authed = true;
                    return true;
                }
                None => return true,
                _ => {
                    ack(out, self.cfg.password_ack_code, index, "password", "incorrect password");
                    return false;
                }
            }
        }
        if !self.authed {
            ack(out, 4, index, &name, &format!("you don't have permission for \"{name}\""));
            return false;
        }
        match name.as_str() {
            "idle" | "noidle" => {
                // inside a command list: MPD rejects
                ack(out, 5, index, &name, "not allowed in command list");
                false
            }
            "binarylimit" => {
                match req.args.first().and_then(|a| std::str::from_utf8(a).ok()).and_then(|s| s.parse::<usize>().ok()) {
                    Some(n) if n >= 1 => {
                        self.cfg.binary_limit = n;
                        true
                    }
                    _ => {
                        ack(out, 2, index, "binarylimit", "Value too small");
                        false
                    }
                }
            }
            "readpicture" | "albumart" => {
                let uri = req.args.first().map(|a| String::from_utf8_lossy(a).into_owned()).unwrap_or_default();
                let (emb, cov) = match self.cfg.per_uri.iter().find(|(u, _, _)| *u == uri) {
                    Some((_, e, c)) => (e.clone(), c.clone()),
                    None => (self.cfg.embedded.clone(), self.cfg.cover.clone()),
                };
                let src = if name == "readpicture" { emb } else { cov };
                let offset = req.args.get(1).and_then(|a| std::str::from_utf8(a).ok()).and_then(|s| s.parse::<usize>().ok());
                match src {
                    PicSource::Empty => true,
                    PicSource::Ack(code) => {
                        let msg = if code == 5 { self.cfg.unknown_command_wording.clone().unwrap_or_else(|| format!("unknown command \"{name}\"")) } else { "No file exists".to_string() };
                        ack(out, code, index, if code == 5 { "" } else { &name }, &msg);
                        false
                    }
                    PicSource::Data(data, mime) => {
                        let Some(offset) = offset else {
                            ack(out, 2, index, &name, "Integer expected");
                            return false;
                        };
                        if req.args.len() != 2 {
                            ack(out, 2, index, &name, "wrong number of arguments");
                            return false;
                        }
                        if offset > data.len() {
                            ack(out, 2, index, &name, "Bad file offset");
                            return false;
                        }
                        if let Some((after, code)) = self.cfg.fail_after_chunks {
                            if self.chunks_served >= after {
                                ack(out, code, index, &name, "Failed to read file");
                                return false;
                            }
                        }
                        let mut k = self.cfg.binary_limit.min(data.len() - offset);
                        if !self.cfg.chunk_pattern.is_empty() && k > 0 {
                            k = k.min(self.cfg.chunk_pattern[self.chunks_served % self.cfg.chunk_pattern.len()].max(1));
                        }
                        self.chunks_served += 1;
                        out.extend_from_slice(format!("size: {}\n", data.len()).as_bytes());
                        if name == "readpicture" {
                            if let Some(m) = mime.filter(|_| offset == 0 || !self.cfg.mime_only_in_first_chunk) {
                                out.extend_from_slice(format!("type: {m}\n").as_bytes());
                            }
                        }
                        out.extend_from_slice(format!("binary: {k}\n").as_bytes());
                        out.extend_from_slice(&data[offset..offset + k]);
                        out.push(b'\n');
                        true
                    }
                }
            }
            n if n.starts_with("partialfail") => {
                // a command that prints part of its output before it fails
                out.extend_from_slice(b"partial: ");
                out.extend_from_slice(line);
                out.push(b'\n');
                ack(out, 50, index, &name, &format!("No such thing: {}", String::from_utf8_lossy(line)));
                false
            }
            n if n.starts_with("fail") => {
                ack(out, 50, index, &name, &format!("No such thing: {}", String::from_utf8_lossy(line)));
                false
            }
            "count" => {
                // a command with a side effect: every execution answers with its own serial
                // number, so two byte-identical requests have distinguishable replies
                self.counted += 1;
                out.extend_from_slice(b"echo: ");
                out.extend_from_slice(line);
                out.extend_from_slice(format!("\nserial: {}\n", self.counted).as_bytes());
                true
            }
            _ => {
                // echo reply identifying the request line
                out.extend_from_slice(b"echo: ");
                out.extend_from_slice(line);
                out.push(b'\n');
                true
            }
        }
    }
}
