//! Reference models — the trusted base of the checks. Written from the MPD protocol reference and
//! MPD's sources, independent of the code under test.
pub mod filter;
pub mod server;
pub mod tokenizer;
pub mod wire;

pub fn self_test() -> Result<(), String> {
    tokenizer::self_test()?;
    filter::self_test()?;
    wire::self_test()?;
    Ok(())
}
